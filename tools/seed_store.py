#!/venv/bin/python
"""usage: seed_store.py <srcdir> <seed-id> <PROP> <checks,comma> "<needs text>" ["<note>"]
Runs tools/seed_eval.sh on the change, then stores patch.diff, the demonstration and meta.json
under /verif/seeded/<seed-id>/."""
import json, os, re, shutil, subprocess, sys
src, sid, prop, checks, needs = sys.argv[1:6]
note = sys.argv[6] if len(sys.argv) > 6 else ""
out = subprocess.run(["/verif/tools/seed_eval.sh", src, checks], capture_output=True, text=True).stdout
line = [l for l in out.splitlines() if l.startswith("RESULT")][-1]
m = re.search(r"demo_clean=(\d+) demo_mut=(\d+) tests='([^']*)' checks=(.*)", line)
results = {}
for tok in re.findall(r"(C\d\d):(\d+):\[([^\]]*)\]", m.group(4)):
    results[tok[0]] = {"violation_lines": int(tok[1]), "classes": sorted(set(re.findall(r"class=([\w.\-]+)", tok[2])))}
dest = os.path.join("/verif/seeded", sid)
os.makedirs(dest, exist_ok=True)
shutil.copy(os.path.join(src, "patch.diff"), dest)
shutil.copy(os.path.join(src, "demo.py"), dest)
if os.path.exists(os.path.join(src, "NOTES.md")):
    shutil.copy(os.path.join(src, "NOTES.md"), dest)
meta = {"id": sid, "property": prop, "origin": "independent sub-agent given only the property text and a scratch worktree",
        "needs_to_manifest": needs,
        "confirmed": {"existing_tests_with_change": m.group(3), "demo_exit_unchanged_tree": int(m.group(1)), "demo_exit_with_change": int(m.group(2)),
                      "how": "tools/seed_eval.sh: fresh scratch copy of /repo HEAD, git apply patch.diff, pytest, demo.py with and without the change"},
        "checks_run": results,
        "caught_by": sorted(p for p, r in results.items() if r["violation_lines"]),
        "note": note}
json.dump(meta, open(os.path.join(dest, "meta.json"), "w"), indent=1)
print(json.dumps(meta["confirmed"]), meta["checks_run"], "CAUGHT" if meta["caught_by"] else "MISSED")
