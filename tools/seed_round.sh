#!/bin/bash
# usage: seed_round.sh <worktree prefix, e.g. /tmp/wt5_> [props...]  -> one block per change
prefix=$1; shift
props=${@:-C06 C09 C12 C16 C17 C18 C19}
for p in $props; do
  for k in 1 2 3; do
    d=${prefix}${p}/seeded/$k
    [ -f "$d/patch.diff" ] || { echo "=== $p $k: missing"; continue; }
    echo "=== $p $k"
    /verif/tools/seed_eval.sh "$d" "$p" 2>&1 | grep -v conda | grep -E "demo|class=|check |HARNESS|NOTE" | cut -c1-220 | tail -6
  done
done
