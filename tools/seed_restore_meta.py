#!/venv/bin/python
"""usage: seed_restore_meta.py <seed-id> ["note"]  - re-runs the stored change through its property's check and updates meta.json"""
import json, re, subprocess, sys
sid = sys.argv[1]
path = "/verif/seeded/%s/meta.json" % sid
meta = json.load(open(path))
prop = meta["property"]
out = subprocess.run(["/verif/tools/seed_eval.sh", "/verif/seeded/" + sid, prop], capture_output=True, text=True).stdout
line = [l for l in out.splitlines() if l.startswith("RESULT")][-1]
tok = re.search(r"(C\d\d):(\d+):\[([^\]]*)\]", line)
meta["checks_run"] = {tok.group(1): {"violation_lines": int(tok.group(2)), "classes": sorted(set(re.findall(r"class=([\w.\-]+)", tok.group(3))))}}
meta["caught_by"] = [prop] if int(tok.group(2)) else []
if len(sys.argv) > 2:
    meta["note"] = sys.argv[2]
json.dump(meta, open(path, "w"), indent=1)
print(sid, meta["checks_run"], "CAUGHT" if meta["caught_by"] else "MISSED")
