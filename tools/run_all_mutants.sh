#!/bin/bash
# Runs every sensitivity mutant / negative control of tools/mutants against the checks named in MAP.txt
# (scratch copies only). Prints one line per (mutant, check).
cd /verif
grep -v '^#' tools/mutants/MAP.txt | while read name props; do
  f=tools/mutants/$name.diff
  for prop in ${props//,/ }; do
    res=$(tools/try_mutant.sh $f $prop ${1:-300} 2>&1 | grep -E "^exit=" | head -1)
    echo "$name $prop $res"
  done
done
