"""Probe: N generated items (all generator options on) through admission, multi-level vs flattened vs
constructed molecule, directly against $VERIF_REPO (default /repo). Usage: probe_generator.py [N]"""
import os, sys, time
sys.path.insert(0, os.path.dirname(os.path.dirname(os.path.abspath(__file__))))
sys.path.insert(0, os.environ.get("VERIF_REPO", "/repo"))
os.environ.setdefault("PBR_VERSION", "0.0.0")
from collections import Counter
from sim import gen_mol, admit, graphcmp
from sim.core import rng_for
from cgsmiles.resolve import MoleculeResolver
N = int(sys.argv[1]) if len(sys.argv) > 1 else 500
stats = Counter(); t0 = time.time()
for s in range(N):
    rng = rng_for("probe", s)
    it = gen_mol.build_item(rng, weights=(s % 2 == 0), hyper=(("S", "P", "N", "exotic") if s % 2 else ("S", "P", "N")) if s % 3 else (), explicit_h=(s % 4 == 1),
                            n_leaves=rng.randint(1, 16) if s % 5 == 0 else None, size=rng.randint(20, 45) if s % 5 == 0 else None,
                            components=rng.choice([2, 3]) if s % 7 == 0 else 1)
    r = admit.admit(it)
    if r:
        stats["reject"] += 1; print("REJECT", s, r[:300]); print("  ", it["multi"][:600]); continue
    try:
        _, fine = MoleculeResolver.from_string(it["multi"], last_all_atom=it["last_all_atom"]).resolve_all()
        _, fine2 = MoleculeResolver.from_string(it["flat"], last_all_atom=it["last_all_atom"]).resolve_all()
    except Exception as e:
        stats["exc"] += 1; print("EXC", s, type(e).__name__, str(e)[:200]); print("  ", it["multi"][:600]); continue
    if it["kind"] == "atomistic":
        a, p = graphcmp.heavy_skeleton(fine); b, _ = graphcmp.heavy_skeleton(fine2)
    else:
        a = graphcmp.named_graph(fine, "atomname"); b = graphcmp.named_graph(fine2, "atomname"); p = []
    ok1, why1 = graphcmp.isomorphic(a, b); ok2, why2 = graphcmp.isomorphic(a, graphcmp.expected_skeleton(it["mol"]))
    stats["ok" if ok1 and ok2 and not p else "BAD"] += 1
    if not (ok1 and ok2) or p:
        print("BAD", s, why1, "|", why2, p); print("  ", it["multi"][:600])
    stats["lv%d" % it["n_levels"]] += 1
print(dict(stats), "%.1fs" % (time.time() - t0))
