#!/bin/bash
# usage: try_mutant.sh <patch.diff> <PROP>[,<PROP>...] [runs] [--tests]
# Applies the patch to a scratch copy of /repo (never to /repo itself), optionally runs the
# repository's own tests there, runs the named checks against the copy, removes the copy.
set -u
patch=$(realpath "$1"); props=$2; runs=${3:-300}; tests=${4:-}
scratch=$(mktemp -d /tmp/mut.XXXXXX)
cp -r /repo/. "$scratch/"
cd "$scratch" && { git apply "$patch" 2>/dev/null || git apply --3way "$patch" >/dev/null 2>&1; } || { echo "PATCH DOES NOT APPLY"; rm -rf "$scratch"; exit 3; }
if [ "$tests" = "--tests" ]; then
  (cd "$scratch" && /venv/bin/python -m pytest -q -p no:cacheprovider -x 2>&1 | tail -2)
fi
cd /verif
for prop in ${props//,/ }; do
  VERIF_REPO="$scratch" VERIF_EVIDENCE_DIR="$scratch/.evidence" VERIF_REPLAY_DIR="$scratch/.replays" timeout 900 /venv/bin/python /verif/check.py "$prop" --runs "$runs" 2>&1 | grep -v conda | grep -E "^(VIOLATION|DONE|HARNESS|KNOWN|  class)" | head -8
  echo "exit=${PIPESTATUS[0]} prop=$prop"
done
rm -rf "$scratch"
