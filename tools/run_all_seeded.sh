#!/bin/bash
# Regression over every stored seeded change: applies seeded/<id>/patch.diff to a scratch copy of /repo and runs
# the check(s) that caught it when it was stored. One line per change: id, violation lines, classes.
# usage: run_all_seeded.sh [parallel jobs, default 3]
cd /verif
one() {
  d=$1; id=$(basename $d)
  props=$(/venv/bin/python -c "import json;m=json.load(open('$d/meta.json'));print(','.join(m['caught_by']) or m['property'])")
  out=$(tools/seed_eval.sh $d $props 2>&1 | grep -v conda | grep "^RESULT")
  total=0
  for n in $(echo "$out" | grep -oE "C[0-9][0-9]:[0-9]+" | cut -d: -f2); do total=$((total + n)); done
  classes=$(echo "$out" | grep -oE "class=[A-Za-z0-9.-]+" | sort -u | tr '\n' ' ')
  echo "$id $props violations_lines=$total $classes"
}
export -f one
ls -d seeded/*/ | xargs -P ${1:-3} -I{} bash -c 'one {}'
