#!/bin/bash
# Regression over every stored seeded change: applies seeded/<id>/patch.diff to a scratch copy of /repo and runs
# the check of its property. One line per change: id, caught/missed, classes.
cd /verif
for d in seeded/*/; do
  id=$(basename $d)
  prop=$(/venv/bin/python -c "import json;print(json.load(open('$d/meta.json'))['property'])")
  out=$(tools/seed_eval.sh $d $prop ${1:-} 2>&1 | grep -v conda | grep "^RESULT")
  nviol=$(echo "$out" | grep -oE "$prop:[0-9]+" | cut -d: -f2)
  classes=$(echo "$out" | grep -oE "class=[A-Za-z0-9.-]+" | sort -u | tr '\n' ' ')
  echo "$id $prop violations_lines=${nviol:-?} $classes"
done
