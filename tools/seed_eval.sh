#!/bin/bash
# usage: seed_eval.sh <dir with patch.diff + demo.py> <PROP>[,PROP...] [runs]
# Confirms a seeded change in a scratch copy of /repo (tests pass, demo fails with the change and
# passes without) and runs the named checks against it. Prints a one-line JSON summary at the end.
set -u
src=$(realpath "$1"); props=$2; runs=${3:-}
scratch=$(mktemp -d /tmp/seed.XXXXXX)
cp -r /repo/. "$scratch/"
cd "$scratch"
run_demo() { (cd "$scratch" && PBR_VERSION=0.0.0 PYTHONPATH="$scratch" PYTHONDONTWRITEBYTECODE=1 timeout 300 /venv/bin/python "$src/demo.py" >/dev/null 2>&1; echo $?); }
demo_clean=$(run_demo)
if ! git apply "$src/patch.diff" 2>/dev/null; then
  # the patch was written against an earlier HEAD of /repo (before a later fix: commit): merge it
  if git apply --3way "$src/patch.diff" >/dev/null 2>&1; then
    git reset -q 2>/dev/null
  else
    # last resort: evaluate the change on the commit it was written for (547f47a, before fix 03e1a8d)
    git checkout -q -- . 2>/dev/null; git checkout -q 547f47a -- cgsmiles 2>/dev/null
    demo_clean=$(run_demo)
    if ! git apply "$src/patch.diff" 2>/dev/null; then echo "RESULT {\"applies\": false}"; rm -rf "$scratch"; exit 3; fi
    echo "note: patch applied on its base commit 547f47a"
  fi
fi
tests=$(PBR_VERSION=0.0.0 /venv/bin/python -m pytest -q -p no:cacheprovider 2>&1 | tail -1)
demo_mut=$(run_demo)
echo "demo clean exit=$demo_clean, with change exit=$demo_mut; tests: $tests"
cd /verif
summary=""
for prop in ${props//,/ }; do
  args="$prop"; [ -n "$runs" ] && args="$prop --runs $runs"
  out=$(VERIF_REPO="$scratch" VERIF_EVIDENCE_DIR="$scratch/.evidence" VERIF_REPLAY_DIR="$scratch/.replays" timeout 1200 /venv/bin/python /verif/check.py $args 2>&1 | grep -v conda)
  code=$?
  echo "$out" | grep -E "^(VIOLATION|DONE|HARNESS|NOTE|  class)" | head -6
  nviol=$(echo "$out" | grep -c "^VIOLATION")
  classes=$(echo "$out" | grep -oE "class=[A-Za-z0-9.-]+" | sort -u | tr '\n' ' ')
  echo "check $prop: violations_lines=$nviol classes=$classes"
  summary="$summary $prop:$nviol:[$classes]"
done
echo "RESULT demo_clean=$demo_clean demo_mut=$demo_mut tests='$tests' checks=$summary"
rm -rf "$scratch"
