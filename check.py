#!/venv/bin/python
"""
Orchestrator of the deterministic simulation checks.

  check.py <ID> [--tier quick|thorough] [--runs N] [--workers W]
  check.py <ID> --replay FILE
  check.py selftest --setup | --determinism [ID ...]

Exit codes: 0 property held on everything explored (KNOWN-FINDING lines
allowed), 1 at least one `VIOLATION property=<id> replay=<path>` line,
2 harness error (never a verdict).
"""
import os
import sys
import json
import time
import argparse

HERE = os.path.dirname(os.path.abspath(__file__))
sys.path.insert(0, HERE)

from sim import procs  # noqa: E402
from sim.core import sha, jdump  # noqa: E402

REPLAY_DIR = os.environ.get("VERIF_REPLAY_DIR") or os.path.join(HERE, "replays")
PROPS = ["C06", "C09", "C12", "C16", "C17", "C18", "C19"]

BUDGET = {
    # runs, determinism pairs, wall cap (s)
    "quick": {"C06": (900, 40, 300), "C12": (900, 100, 300), "C09": (2000, 30, 300), "C16": (2500, 30, 300),
              "C17": (2200, 100, 300), "C18": (1200, 30, 300), "C19": (800, 30, 300)},
    "thorough": {"C06": (12000, 300, 3000), "C12": (12000, 400, 3000), "C09": (40000, 300, 3000),
                 "C16": (40000, 300, 3000), "C17": (40000, 400, 3000), "C18": (15000, 300, 3000),
                 "C19": (8000, 300, 3000)},
}
HASH_SEED_IS_PROPERTY = {"C12", "C17"}


def twin_hash_seed(idx):
    """The second interpreter of determinism pair idx: every hash seed of the pool but the first, in turn."""
    return procs.HASH_SEEDS[1 + idx % (len(procs.HASH_SEEDS) - 1)]


def load_known():
    path = os.path.join(HERE, "known_findings.json")
    if not os.path.exists(path):
        return {"findings": [], "fixed": []}
    with open(path) as handle:
        return json.load(handle)


def write_evidence(prop, tier, seed, coverage, wall, violations, assumptions):
    evdir = os.environ.get("VERIF_EVIDENCE_DIR") or os.path.join(HERE, "evidence")
    os.makedirs(evdir, exist_ok=True)
    evidence = {"property_id": prop, "tier": tier, "seed": int(seed), "level": "exploration",
                "coverage": coverage, "assumptions": assumptions, "wall_s": round(wall, 2),
                "violations": int(violations)}
    path = os.path.join(evdir, prop + ".json")
    tmp = path + ".tmp"
    with open(tmp, "w") as handle:
        json.dump(evidence, handle, indent=1, sort_keys=True)
    os.replace(tmp, path)


def engine_meta(prop):
    from importlib import import_module
    name = {"C06": "sim.meta_resolver", "C12": "sim.meta_resolver", "C09": "sim.meta_sampler", "C16": "sim.meta_sampler",
            "C17": "sim.meta_sampler", "C18": "sim.meta_rdkit", "C19": "sim.meta_layout"}[prop]
    return import_module(name)


def run_check(prop, tier, seed, runs=None, workers=None, wall_cap=None):
    t0 = time.time()
    n_runs, n_pairs, cap = BUDGET[tier][prop]
    if runs:
        n_runs = runs
        n_pairs = min(n_pairs, max(2, runs // 10))
    cap = wall_cap or cap
    deadline = t0 + cap
    print("SEED %d property=%s tier=%s runs=%d determinism_pairs=%d" % (seed, prop, tier, n_runs, n_pairs), flush=True)
    known = load_known()
    findings = [f for f in known.get("findings", []) if f.get("property") == prop]
    tasks = []
    for idx in range(n_runs):
        task = {"prop": prop, "mode": "run", "seed": seed, "run": idx, "tier": tier, "known": findings}
        if idx < n_pairs:
            task["hash_seed"] = procs.HASH_SEEDS[0]
        tasks.append(task)
    for idx in range(n_pairs):
        tasks.append({"prop": prop, "mode": "run", "seed": seed, "run": idx, "tier": tier, "known": findings,
                      "hash_seed": twin_hash_seed(idx), "minimise": False, "twin": True})
    state = {"violations": 0}

    def progress(idx, res):
        if res.get("violations"):
            state["violations"] += 1

    def prepare(task):
        # a badly broken tree: report quickly instead of minimising hundreds of failures
        if state["violations"] >= 40:
            return None
        if state["violations"] >= 3:
            task["minimise"] = False
        return task

    results, errors = procs.run_tasks(tasks, n_workers=workers, deadline=deadline, progress=progress, prepare=prepare)
    wall = time.time() - t0
    harness_errors = list(errors)
    done = [r for r in results if r is not None]
    for res in done:
        if res.get("harness_error"):
            harness_errors.append("run %s: %s" % (res.get("run"), res["harness_error"][:600]))
    primary = [r for r, t in zip(results, tasks) if r is not None and not t.get("twin") and not r.get("harness_error")]
    twins = {t["run"]: r for r, t in zip(results, tasks) if r is not None and t.get("twin") and not r.get("harness_error")}
    executed = [r for r in primary if r["status"] == "ok"]
    rejected = [r for r in primary if r["status"] == "rejected"]

    # -- determinism across interpreters / hash seeds -------------------------------
    pairs_compared = 0
    mismatches = []
    for res in primary:
        twin = twins.get(res["run"])
        if twin is None or res["status"] != "ok" or twin["status"] != "ok":
            continue
        pairs_compared += 1
        if res["digest"] != twin["digest"]:
            mismatches.append(res["run"])

    meta = engine_meta(prop)
    violation_lines = []
    known_lines = []
    known_counts = {}
    seen_classes = set()
    n_viol = 0
    by_id = {f["id"]: f for f in findings}
    for res in executed:
        for fid in res.get("known_hits", []):
            known_counts[fid] = known_counts.get(fid, 0) + 1
            line = "KNOWN-FINDING: property=%s %s" % (prop, by_id[fid]["what"])
            if line not in known_lines:
                known_lines.append(line)
        if not res.get("violations"):
            continue
        replay = res.get("replay")
        first = res["violations"][0]
        n_viol += 1
        klass = replay["class"] if replay else ([tok for tok in first["oracle"].split() if tok.startswith(prop)] or [first["oracle"]])[0]
        if klass in seen_classes and len(violation_lines) >= 3:
            continue
        seen_classes.add(klass)
        path = os.path.join(REPLAY_DIR, "%s-%s.json" % (prop, res["run_seed"]))
        os.makedirs(os.path.dirname(path), exist_ok=True)
        payload = replay or {"property": prop, "class": klass, "violation": first, "run_seed": res["run_seed"]}
        payload["hash_seed"] = res.get("hash_seed_used")
        with open(path, "w") as handle:
            json.dump(payload, handle, indent=1)
        verified = verify_replay(prop, path) if replay else None
        violation_lines.append("VIOLATION property=%s replay=%s" % (prop, path))
        print("  class=%s run=%s seed=%s replay_verified=%s\n  %s\n  %s" % (
            klass, res["run"], res["run_seed"], verified, first.get("where", ""), first.get("detail", "")), flush=True)
    if mismatches and prop in HASH_SEED_IS_PROPERTY:
        n_viol += len(mismatches)
        path = os.path.join(REPLAY_DIR, "%s-hashseed-%d.json" % (prop, seed))
        os.makedirs(os.path.dirname(path), exist_ok=True)
        payload = hashseed_replay(prop, seed, tier, mismatches[0], findings, [procs.HASH_SEEDS[0], twin_hash_seed(mismatches[0])])
        payload["runs_with_different_logs"] = mismatches
        with open(path, "w") as handle:
            json.dump(payload, handle, indent=1)
        violation_lines.append("VIOLATION property=%s replay=%s" % (prop, path))
        print("  class=%s.hash-seed: %d of %d runs gave different event logs under PYTHONHASHSEED %s and %s (runs %r); replay minimised in %d steps"
              % (prop, len(mismatches), pairs_compared, procs.HASH_SEEDS[0], "/".join(procs.HASH_SEEDS[1:]), mismatches[:10], payload.get("minimise_steps", 0)), flush=True)

    enum = None
    if prop in ("C12", "C17") and not runs:
        enum = run_enum(prop, tier, seed, workers, deadline + 600, findings)
        harness_errors += enum["errors"]
        for payload in enum["replays"]:
            n_viol += 1
            path = os.path.join(REPLAY_DIR, "%s-abortenum-%s.json" % (prop, payload["scenario"]["run_seed"]))
            os.makedirs(os.path.dirname(path), exist_ok=True)
            with open(path, "w") as handle:
                json.dump(payload, handle, indent=1)
            violation_lines.append("VIOLATION property=%s replay=%s" % (prop, path))
            print("  class=%s (exhaustive abort enumeration, k=%s of %s) replay_verified=%s\n  %s" % (
                payload["class"], payload["scenario"]["enum"]["k"], payload["scenario"]["enum"]["which"],
                verify_replay(prop, path), payload["violation"]["detail"]), flush=True)

    # -- evidence --------------------------------------------------------------------
    wall = time.time() - t0
    coverage = meta.coverage(prop, executed, rejected, tier)
    if enum is not None:
        coverage["exhaustive_abort_enumeration"] = {
            "items": enum["items"], "abort_points": enum["points"], "aborts_delivered": enum["fired"],
            "failing_points": enum["failures"], "landing_files": enum["landing"], "samples": enum["samples"],
            "complete": bool(enum.get("complete")), "line_stride": enum.get("stride", 1),
            "what": ("for each small item, resolve_all() over a shared library and read_fragments(fragment_dict=shared) were aborted at EVERY cgsmiles line index 1..N in a pristine fork; afterwards the library snapshot and a fresh resolver over the same library were compared with the reference")
                    if prop == "C12" else
                    ("for each small configuration, a seeded construct-and-sample (over a fragment dict shared within the history, or from the string) was aborted at EVERY cgsmiles line index 1..N in a pristine fork; the same seeded construct-and-sample executed right afterwards must return exactly the pristine reference molecule and pass all per-molecule oracles")}
    coverage.update({
        "runs_planned": n_runs, "runs_executed": len(executed), "runs_rejected_by_admission": len(rejected),
        "runs_per_hour": int(len(executed) / max(wall, 1e-6) * 3600),
        "determinism_pairs_compared": pairs_compared,
        "determinism_mismatches": len(mismatches),
        "hash_seeds": procs.HASH_SEEDS,
        "workers": workers or os.cpu_count(),
        "budget_capped": len(done) < len(tasks),
        "known_findings_seen": known_counts,
    })
    write_evidence(prop, tier, seed, coverage, wall, n_viol, meta.ASSUMPTIONS)
    for line in known_lines:
        print(line)
    for line in violation_lines:
        print(line)
    print("DONE property=%s runs=%d rejected=%d violations=%d pairs=%d mismatches=%d wall=%.1fs"
          % (prop, len(executed), len(rejected), n_viol, pairs_compared, len(mismatches), wall), flush=True)
    reasons = {}
    for r in rejected:
        for reason in (r.get("reject_reasons") or ["?"]):
            key = str(reason)[:160]
            reasons[key] = reasons.get(key, 0) + 1
    for key, count in sorted(reasons.items(), key=lambda kv: -kv[1])[:4]:
        print("NOTE: %d generated scenario(s) not used: %s" % (count, key))
    if mismatches and prop not in HASH_SEED_IS_PROPERTY:
        print("NOTE: %d runs gave different event logs under two hash seeds (recorded in evidence; not part of %s)" % (len(mismatches), prop))
    if violation_lines:
        return 1
    if harness_errors:
        for err in harness_errors[:5]:
            print("HARNESS-ERROR " + err, flush=True)
        return 2
    if not executed:
        print("HARNESS-ERROR no run executed")
        return 2
    if not coverage.get("productive_results_judged"):
        print("HARNESS-ERROR %d runs executed but no result of the code under test was judged (every op ended in an exception?)" % len(executed))
        return 2
    if len(rejected) > 0.05 * max(1, len(primary)) and len(rejected) > 3:
        print("HARNESS-ERROR %d of %d generated items were rejected by the admission self-check" % (len(rejected), len(primary)))
        for r in rejected[:3]:
            print("   ", r.get("reject_reasons"))
        return 2
    return 0


ENUM_ITEMS = {"quick": {"C12": 2, "C17": 1}, "thorough": {"C12": 24, "C17": 12}}


def run_enum(prop, tier, seed, workers, deadline, findings):
    """Exhaustive abort-point enumeration over small items (C12, DESIGN 4/C12)."""
    from sim.core import H
    n_items = ENUM_ITEMS[tier][prop]
    probes = [{"prop": prop, "mode": "enum_probe", "item_seed": H(seed, "enum-item", i)} for i in range(n_items)]
    results, errors = procs.run_tasks(probes, n_workers=workers, deadline=deadline)
    tasks = []
    items = 0
    strides = []
    probe_errors = []
    for res in results:
        if res is None or res.get("harness_error"):
            probe_errors.append("abort-enumeration probe failed: %s" % ((res or {}).get("harness_error", "no result")[:300],))
            continue
        if not res.get("probe") or res["probe"].get("rejected"):
            continue
        items += 1
        probe = res["probe"]
        for which in [w for w in ("resolve_all", "grow", "cs") if w in probe]:
            # quick tier: at most ~3000 abort points per op (every stride-th line); thorough tier: every line
            stride = 1 if tier == "thorough" else max(1, -(-probe[which] // 3000))
            strides.append(stride)
            ks = list(range(1, probe[which] + 1, stride))
            for start in range(0, len(ks), 120):
                tasks.append({"prop": prop, "mode": "enum_points", "item_seed": res["item_seed"], "which": which,
                              "ks": ks[start:start + 120], "ref": probe["ref"], "known": findings})
    errors = list(errors) + probe_errors
    out = {"items": items, "stride": max(strides or [1]), "points": 0, "fired": 0, "failures": 0, "landing": {}, "replays": [], "errors": list(errors), "samples": []}
    if not tasks:
        return out
    results, errors = procs.run_tasks(tasks, n_workers=workers, deadline=deadline)
    out["errors"] += errors
    out["complete"] = all(r is not None for r in results) and max(strides or [1]) == 1
    out["stride"] = max(strides or [1])
    for res in results:
        if res is None:
            continue
        if res.get("harness_error"):
            out["errors"].append(res["harness_error"][:300])
            continue
        out["points"] += res["points"]
        out["fired"] += res["fired"]
        for where, count in res["landing"].items():
            key = where.split(":")[0]
            out["landing"][key] = out["landing"].get(key, 0) + count
        if len(out["samples"]) < 2:
            out["samples"].append({"string": res["string"], "op": res["which"], "points": res["points"]})
        if res["failures"]:
            out["failures"] += len(res["failures"])
            if res.get("replay") and len(out["replays"]) < 3:
                out["replays"].append(res["replay"])
    return out


def _digests_under(prop, scenario, hash_seeds, findings):
    tasks = [{"prop": prop, "mode": "replay", "scenario": scenario, "hash_seed": hs, "known": findings} for hs in hash_seeds]
    results, errors = procs.run_tasks(tasks, n_workers=len(tasks))
    if errors or any(r is None or r.get("harness_error") for r in results):
        return None
    return [(r.get("status"), r.get("digest")) for r in results]


def hashseed_replay(prop, seed, tier, run_index, findings, hash_seeds=None, budget_s=90.0):
    """Replay file for a cross-interpreter difference: the scenario, minimised while the
    event-log digests under the two hash seeds still differ."""
    from sim.registry import engine
    hash_seeds = hash_seeds or procs.HASH_SEEDS[:2]
    task = {"prop": prop, "mode": "run", "seed": seed, "run": run_index, "tier": tier, "minimise": False,
            "return_scenario": True, "hash_seed": hash_seeds[0], "known": findings}
    results, errors = procs.run_tasks([task], n_workers=1)
    payload = {"property": prop, "class": prop + ".hash-seed", "verif_seed": seed, "run_index": run_index,
               "hash_seeds": hash_seeds, "minimise_steps": 0}
    if errors or not results[0] or "scenario" not in results[0]:
        payload["how"] = "run index %d of `check.py %s` under both hash seeds" % (run_index, prop)
        return payload
    scenario = results[0]["scenario"]
    mod = engine(prop)
    start = time.time()
    steps = 0
    improved = True
    while improved and time.time() - start < budget_s:
        improved = False
        for cand in mod.shrink_candidates(scenario):
            if time.time() - start > budget_s:
                break
            steps += 1
            digs = _digests_under(prop, cand, hash_seeds, findings)
            if digs and digs[0][0] == digs[1][0] == "ok" and digs[0][1] != digs[1][1]:
                scenario = cand
                improved = True
                break
    payload["scenario"] = scenario
    payload["minimise_steps"] = steps
    payload["run_seed"] = scenario.get("run_seed")
    return payload


def verify_replay(prop, path):
    """Replay the file in a fresh interpreter and confirm the violation class."""
    with open(path) as handle:
        payload = json.load(handle)
    findings = [f for f in load_known().get("findings", []) if f.get("property") == prop]
    task = {"prop": prop, "mode": "replay", "scenario": payload["scenario"], "hash_seed": payload.get("hash_seed"), "known": findings}
    results, errors = procs.run_tasks([task], n_workers=1)
    res = results[0]
    if errors or res is None or res.get("harness_error"):
        return "error"
    return payload["class"] in (res.get("classes") or [])


def replay(prop, path):
    with open(path) as handle:
        payload = json.load(handle)
    if "scenario" not in payload:
        print("replay file has no scenario: " + payload.get("how", ""))
        return 2
    if payload.get("class", "").endswith(".hash-seed"):
        findings = [f for f in load_known().get("findings", []) if f.get("property") == prop]
        digs = _digests_under(prop, payload["scenario"], payload["hash_seeds"], findings)
        if digs is None:
            print("HARNESS-ERROR replay under two hash seeds failed")
            return 2
        print("REPLAY property=%s class=%s digests under PYTHONHASHSEED %s: %s" % (prop, payload["class"], payload["hash_seeds"], digs))
        if digs[0] != digs[1]:
            print("VIOLATION property=%s replay=%s" % (prop, path))
            print("  reproduced class %s: True" % payload["class"])
            return 1
        print("replay did not violate the property on this tree")
        return 0
    findings = [f for f in load_known().get("findings", []) if f.get("property") == prop]
    task = {"prop": prop, "mode": "replay", "scenario": payload["scenario"], "hash_seed": payload.get("hash_seed"), "known": findings}
    results, errors = procs.run_tasks([task], n_workers=1)
    res = results[0]
    if errors or res is None or res.get("harness_error"):
        print("HARNESS-ERROR", errors, res)
        return 2
    print("REPLAY property=%s run_seed=%s digest=%s" % (prop, payload.get("run_seed"), res.get("digest")))
    for viol in res.get("violations", []):
        print("  %s | %s | event %s | %s" % (viol["oracle"], viol.get("where", ""), viol.get("event"), viol.get("detail")))
    for fid in res.get("known_hits", []):
        print("KNOWN-FINDING: property=%s %s" % (prop, fid))
    if res.get("violations"):
        same = payload.get("class") in (res.get("classes") or [])
        print("VIOLATION property=%s replay=%s" % (prop, path))
        print("  reproduced class %s: %s" % (payload.get("class"), same))
        return 1
    print("replay did not violate the property on this tree")
    return 0


def selftest_setup():
    import jsonschema  # noqa
    return 0


def main(argv=None):
    parser = argparse.ArgumentParser()
    parser.add_argument("prop")
    parser.add_argument("--tier", default=os.environ.get("VERIF_TIER", "quick"), choices=["quick", "thorough"])
    parser.add_argument("--runs", type=int, default=None)
    parser.add_argument("--workers", type=int, default=None)
    parser.add_argument("--wall", type=int, default=None)
    parser.add_argument("--replay", default=None)
    parser.add_argument("--setup", action="store_true")
    parser.add_argument("--determinism", action="store_true")
    parser.add_argument("rest", nargs="*")
    args = parser.parse_intermixed_args(argv)
    seed = int(os.environ.get("VERIF_SEED", "0") or 0)
    if args.prop == "selftest":
        from sim import selftest
        return selftest.main(args, seed)
    if args.prop not in PROPS:
        print("unknown property %r (claimed: %s)" % (args.prop, ", ".join(PROPS)))
        return 2
    if args.replay:
        return replay(args.prop, args.replay)
    return run_check(args.prop, args.tier, seed, runs=args.runs, workers=args.workers, wall_cap=args.wall)


if __name__ == "__main__":
    try:
        code = main()
    except Exception as exc:  # noqa
        import traceback
        traceback.print_exc()
        print("HARNESS-ERROR %s: %s" % (type(exc).__name__, exc))
        code = 2
    sys.exit(code)
