"""
Per-event invariants evaluated on graphs the resolver returns.

Each function returns a list of (oracle, detail) tuples; an empty list means
the invariant held. 'oracle' names which clause of which property is judged
(see DESIGN 4 / C06, C12, C09).
"""
import re
from collections import defaultdict

from .valence import check_valence

ATOMNAME = re.compile(r"^([A-Z][a-z]?|\*)(\d+)$")


def numbering(coarse, fine, all_atom, shared_atoms, names_agree=True):
    """C12 clause 1: canonical numbering and atom names."""
    out = []
    keys = list(fine.nodes)
    n = len(keys)
    if not all(isinstance(k, int) and not isinstance(k, bool) for k in keys) or set(keys) != set(range(n)):
        out.append(("C12.numbering", "node keys are not 0..n-1: %r" % (sorted(map(repr, keys))[:8],)))
        return out
    first = []
    for key in range(n):
        fragid = fine.nodes[key].get("fragid")
        if not isinstance(fragid, list) or not fragid:
            out.append(("C12.numbering", "node %d has no fragid list (%r)" % (key, fragid)))
            return out
        first.append(fragid[0])
    if any(first[i] > first[i + 1] for i in range(n - 1)):
        out.append(("C12.numbering", "first fragid entry decreases along the key order: %r" % (first[:40],)))
    if not shared_atoms:
        # every coarse node's members form one contiguous block, blocks follow coarse key order
        seen = []
        for key in range(n):
            fragid = fine.nodes[key]["fragid"]
            if len(fragid) != 1:
                out.append(("C12.numbering", "node %d belongs to %r without a shared atom in the input" % (key, fragid)))
                break
            if not seen or seen[-1] != fragid[0]:
                seen.append(fragid[0])
        if len(seen) != len(set(seen)):
            out.append(("C12.numbering", "members of a coarse node are not contiguous: block sequence %r" % (seen[:40],)))
        # ... and the block of coarse node k holds atoms of the fragment that node k names
        for key in range(n if names_agree else 0):
            owner = fine.nodes[key]["fragid"][0]
            if owner in coarse.nodes:
                want = coarse.nodes[owner].get("fragname")
                if want is not None and fine.nodes[key].get("fragname") != want:
                    out.append(("C12.numbering", "node %d lies in the block of coarse node %r (fragment %r) but reports fragment %r"
                                % (key, owner, want, fine.nodes[key].get("fragname"))))
                    break
        ckeys = [k for k in sorted(coarse.nodes) if k in set(seen)]
        if seen != ckeys and len(seen) == len(set(seen)):
            out.append(("C12.numbering", "blocks do not follow coarse key order: %r vs %r" % (seen[:30], ckeys[:30])))
    if all_atom:
        for cnode in coarse.nodes:
            sub = coarse.nodes[cnode].get("graph")
            if sub is None:
                continue
            names = []
            for node in sub.nodes:
                name = sub.nodes[node].get("atomname")
                element = sub.nodes[node].get("element")
                match = ATOMNAME.match(name or "")
                if not match or match.group(1) != element:
                    out.append(("C12.naming", "coarse node %r atom %r: atomname %r is not element %r plus index"
                                % (cnode, node, name, element)))
                    break
                names.append(name)
            if len(names) != len(set(names)):
                dup = sorted(x for x in set(names) if names.count(x) > 1)
                out.append(("C12.naming", "coarse node %r has duplicate atom names %r" % (cnode, dup[:5])))
            elif not shared_atoms:
                # "element plus a running index": the index runs along the atoms of the coarse node (ascending keys);
                # judged where the statement is explicit, i.e. without shared atoms (a shared atom is sorted behind
                # the hydrogens of its first owner but named before them)
                ordered = sorted(sub.nodes)
                indices = [int(ATOMNAME.match(sub.nodes[n].get("atomname") or "X0").group(2)) for n in ordered
                           if ATOMNAME.match(sub.nodes[n].get("atomname") or "")]
                if len(indices) == len(ordered) and indices != list(range(len(ordered))):
                    out.append(("C12.naming", "coarse node %r: atom name indices %r do not run along its atoms (keys %r)"
                                % (cnode, indices[:12], ordered[:12])))
        for node in fine.nodes:
            name = fine.nodes[node].get("atomname")
            match = ATOMNAME.match(name or "")
            if not match or match.group(1) != fine.nodes[node].get("element"):
                out.append(("C12.naming", "fine node %r: atomname %r vs element %r"
                            % (node, name, fine.nodes[node].get("element"))))
                break
    return out


def mapping(coarse, fine):
    """C06 monitor 4 (C02/C03 bookkeeping at every level; no coverage claim)."""
    out = []
    members = defaultdict(set)
    for node in fine.nodes:
        for fid in fine.nodes[node].get("fragid", []) or []:
            if fid not in coarse.nodes:
                out.append(("C06.mapping", "fine node %r records coarse node %r which does not exist" % (node, fid)))
                return out
            members[fid].add(node)
    for cnode in coarse.nodes:
        sub = coarse.nodes[cnode].get("graph")
        have = set(sub.nodes) if sub is not None else set()
        if have != members.get(cnode, set()):
            out.append(("C06.mapping", "coarse node %r carries %r but the fine nodes recording it are %r"
                        % (cnode, sorted(have)[:12], sorted(members.get(cnode, set()))[:12])))
            break
    cross = defaultdict(int)
    for u, v in fine.edges:
        fu = set(fine.nodes[u].get("fragid", []))
        fv = set(fine.nodes[v].get("fragid", []))
        if fu & fv:
            continue
        pairs = [(a, b) for a in fu for b in fv if coarse.has_edge(a, b)]
        if not pairs:
            out.append(("C06.bonding", "bond %r-%r joins coarse nodes %r and %r which share no base edge"
                        % (u, v, sorted(fu), sorted(fv))))
            break
        if len(fu) == 1 and len(fv) == 1:
            a, b = next(iter(fu)), next(iter(fv))
            cross[(min(a, b), max(a, b))] += 1
    for (a, b), count in cross.items():
        order = coarse.edges[a, b].get("order", 1)
        if count > order:
            out.append(("C06.bonding", "%d bonds across base edge %r-%r of order %r" % (count, a, b, order)))
            break
    return out


def _edge_key(u, v):
    return (min(u, v), max(u, v))


def _bonding_set(value):
    # the pair is stored in creation orientation; compare it as an unordered pair
    if isinstance(value, (tuple, list)):
        return tuple(sorted(map(str, value)))
    return value


def membership_snapshot(coarse):
    """What a returned coarse graph says about fragment membership: per coarse node its name and, for every member,
    the member's key, atom name and fragment name."""
    out = {}
    for node in coarse.nodes:
        sub = coarse.nodes[node].get("graph")
        members = sorted((repr(m), sub.nodes[m].get("atomname"), sub.nodes[m].get("fragname")) for m in sub.nodes) if sub is not None else None
        out[repr(node)] = (coarse.nodes[node].get("fragname"), members)
    return out


def summary(fine):
    """Structural summary used by the chaining oracle (names, edges with order and descriptor pair)."""
    return ({n: fine.nodes[n].get("atomname") for n in fine.nodes},
            {_edge_key(u, v): (float(d.get("order", 1) if d.get("order") is not None else 1), _bonding_set(d.get("bonding")))
             for u, v, d in fine.edges(data=True)})


def chaining(prev_summary, coarse):
    """C06 oracle 2: this step's coarse graph is the previous step's fine graph."""
    out = []
    names, edges = prev_summary
    if set(coarse.nodes) != set(names):
        out.append(("C06.chaining", "coarse node set differs from previous fine graph: %d vs %d nodes"
                    % (len(coarse), len(names))))
        return out
    for node in coarse.nodes:
        if coarse.nodes[node].get("fragname") != names[node]:
            out.append(("C06.chaining", "coarse node %r is named %r, previous fine node was %r"
                        % (node, coarse.nodes[node].get("fragname"), names[node])))
            return out
    got = {_edge_key(u, v): (float(d.get("order", 1) if d.get("order") is not None else 1), _bonding_set(d.get("bonding")))
           for u, v, d in coarse.edges(data=True)}
    if set(got) != set(edges) or any(got[e][0] != edges[e][0] for e in got):
        out.append(("C06.chaining", "coarse edges/orders differ from previous fine graph (%d vs %d edges)"
                    % (len(got), len(edges))))
        return out
    for edge in sorted(got):
        if got[edge][1] != edges[edge][1]:
            out.append(("C06.chaining C06.bonding", "edge %r of the coarse graph carries descriptor pair %r, the previous step created it with %r"
                        % (edge, got[edge][1], edges[edge][1])))
            break
    return out


def valence(fine):
    """C09 oracle on an all-atom graph."""
    return [("C09.valence", d) for d in check_valence(fine)]
