"""
Worker interpreter ("zygote"): imports cgsmiles once, executes nothing of it
in this process; every simulated run and every reference run happens in a
fork of this process (see sim.procs.fork_call).

Protocol: one JSON task per line on stdin, one JSON result per line on a
private duplicate of stdout (fd 1 itself is pointed at /dev/null because the
code under test prints).
"""
import os
import sys
import json
import traceback
import faulthandler

sys.path.insert(0, os.path.dirname(os.path.dirname(os.path.abspath(__file__))))


def main():
    proto = os.fdopen(os.dup(1), "w", buffering=1)
    devnull = os.open(os.devnull, os.O_WRONLY)
    os.dup2(devnull, 1)
    sys.stdout = os.fdopen(1, "w", buffering=1)
    faulthandler.enable(file=sys.stderr)

    from sim import registry  # imports cgsmiles and the scenario modules
    proto.write("READY\n")
    proto.flush()
    for line in sys.stdin:
        line = line.strip()
        if not line:
            continue
        task = json.loads(line)
        try:
            result = registry.run_task(task)
        except BaseException as exc:  # noqa
            result = {"harness_error": "%s: %s\n%s" % (type(exc).__name__, exc, traceback.format_exc())}
        result["run"] = task.get("run")
        proto.write(json.dumps(result) + "\n")
        proto.flush()


if __name__ == "__main__":
    main()
