"""
Independent valence oracle (C09). Does not use pysmiles' tables.

For every non-hydrogen atom whose bonds to non-hydrogen atoms fit a valence of
this table, the number of hydrogens must be exactly (smallest fitting valence)
minus (sum of bond orders to non-hydrogen atoms). Atoms outside the table, or
whose heavy-atom bonds exceed every listed valence, are not judged (the
property's own precondition) and are counted as 'unjudged'.
"""
TABLE = {
    ("B", 0): [3], ("C", 0): [4], ("N", 0): [3, 5], ("O", 0): [2], ("S", 0): [2, 4, 6],
    ("P", 0): [3, 5], ("F", 0): [1], ("Cl", 0): [1], ("Br", 0): [1], ("I", 0): [1],
    ("Si", 0): [4],
    ("N", 1): [4], ("O", -1): [1], ("O", 1): [3], ("N", -1): [2], ("C", -1): [3],
    ("S", -1): [1], ("S", 1): [3], ("P", 1): [4], ("B", -1): [4], ("C", 1): [3],
}

MASS = {"H": 1.008, "B": 10.81, "C": 12.011, "N": 14.007, "O": 15.999, "F": 18.998, "Si": 28.085,
        "P": 30.974, "S": 32.06, "Cl": 35.45, "Br": 79.904, "I": 126.904, "Na": 22.990}


def expected_h(element, charge, heavy_bond_sum):
    vals = TABLE.get((element, int(charge or 0)))
    if not vals:
        return None
    if abs(heavy_bond_sum - round(heavy_bond_sum)) > 1e-9:
        return None
    b = int(round(heavy_bond_sum))
    fits = [v for v in vals if v >= b]
    if not fits:
        return None
    return fits[0] - b


def check_valence(graph, explicit_h=False, stats=None):
    """Returns a list of violation strings for an all-atom networkx molecule."""
    out = []
    judged = 0
    unjudged = 0
    for node, data in graph.nodes(data=True):
        element = data.get("element")
        if element == "H":
            # a zero-order edge (the '.' of a salt) is not a bond
            deg = sum(1 for nb in graph[node] if float(graph.edges[node, nb].get("order", 1) or 0) > 0)
            if deg != 1:
                if deg == 0 and len(graph) == 1:
                    continue
                out.append("hydrogen %r is bonded to %d atoms" % (node, deg))
                continue
            anchor = next(nb for nb in graph[node] if float(graph.edges[node, nb].get("order", 1) or 0) > 0)
            if data.get("single_h_frag") or graph.nodes[anchor].get("element") == "H":
                continue
            attrs = ["fragid", "fragname"] + ([] if explicit_h else ["weight"])
            for attr in attrs:
                if attr == "fragid" and explicit_h and isinstance(data.get(attr), list) and \
                        isinstance(graph.nodes[anchor].get(attr), list) and set(data[attr]) <= set(graph.nodes[anchor][attr]):
                    continue    # a hydrogen written in one fragment on an atom shared by several
                if attr == "fragname" and explicit_h and len(graph.nodes[anchor].get("fragid") or []) > 1:
                    continue    # ... it keeps the name of the fragment it was written in
                if data.get(attr) != graph.nodes[anchor].get(attr):
                    out.append("hydrogen %r has %s=%r but its atom %r has %r"
                               % (node, attr, data.get(attr), anchor, graph.nodes[anchor].get(attr)))
                    break
            continue
        nh = 0
        heavy = 0.0
        for nb in graph[node]:
            order = graph.edges[node, nb].get("order", 1)
            if float(order or 0) == 0:
                continue
            if graph.nodes[nb].get("element") == "H":
                if order != 1:
                    out.append("bond %r-%r to hydrogen has order %r" % (node, nb, order))
                own, other = data.get("fragid"), graph.nodes[nb].get("fragid")
                if isinstance(own, list) and isinstance(other, list) and other and not set(other) & set(own):
                    # a hydrogen that is a fragment of its own (an end group bonded through a descriptor) is a
                    # bonded partner, not a filled-in hydrogen: it is kept, and the atom is completed around it
                    heavy += 1.0
                else:
                    nh += 1
            else:
                heavy += float(order)
        n_arom = sum(1 for nb in graph[node] if graph.edges[node, nb].get("order", 1) == 1.5)
        if n_arom == 1:
            out.append("atom %r (%s) has exactly one bond of order 1.5: aromatic bond orders are inconsistent (bond sum %g)" % (node, element, heavy))
            continue
        if data.get("aromatic") and element in ("N", "O", "S", "P"):
            unjudged += 1        # pyrrole- vs pyridine-type heteroatoms need the kekule form; not judged here
            continue
        want = expected_h(element, data.get("charge", 0), heavy)
        if want is None:
            unjudged += 1
            continue
        judged += 1
        if nh != want:
            out.append("atom %r (%s, charge %s) has heavy-atom bond sum %g and %d hydrogens, expected %d"
                       % (node, element, data.get("charge", 0), heavy, nh, want))
    if stats is not None:
        stats["valence_judged"] = stats.get("valence_judged", 0) + judged
        stats["valence_unjudged"] = stats.get("valence_unjudged", 0) + unjudged
    return out[:5]
