"""Evidence aggregation for the layout simulation (C19)."""
from collections import Counter

ASSUMPTIONS = [
    "exploration, not proof: graphs, bond lengths, relabellings, generator states and histories are sampled from a seeded PRNG",
    "the numpy global generator is the only entropy source of vespr_layout (nx.fruchterman_reingold_layout without seed); the simulator sets or inherits its state and logs a digest of it",
    "positions are never compared between relabellings (the statement does not promise equal coordinates), only the three facts: one finite position per node, bonded nodes apart, mean bond length equals the request (1e-9 relative)",
    "real code: cgsmiles.graph_layout, graph_layout_utils, linalg_functions, the resolver for molecule inputs, networkx layouts, numpy, scipy; stubs: none (the RNG is real, its state is owned)",
]

RULE = ("one evaluation = one simulated history of 1-4 ops on one connected graph with at least one bond (single bond, chains, stars, "
        "rings, fused rings, ladders, random trees with ring closures up to 45 nodes, resolved molecules with hydrogens, molecules "
        "with ez_isomer annotations): vespr_layout with a bond-length setting from {0.01 .. 10}, a node relabelling (shuffled ints, "
        "strings, offset ints, shuffled insertion order) and either a generator state set from the run's PRNG or the state inherited "
        "from the history; foreign draws/reseeds of the numpy global generator; same-state layout of two labellings. distinct = "
        "distinct input graph; non-trivial = at least 3 nodes")


def coverage(prop, executed, rejected, tier):
    total = Counter()
    cases = set()
    nontrivial = set()
    states = set()
    for res in executed:
        stats = res.get("stats", {})
        for key, value in stats.items():
            if isinstance(value, (int, float)) and not isinstance(value, bool):
                total[key] += value
        cases.add(stats.get("case"))
        states.update(stats.get("states", []))
        if res.get("nontrivial"):
            nontrivial.add(stats.get("case"))
    samples = [res["sample"] for res in executed[:3] if res.get("sample")]
    return {
        "evaluations": len(executed),
        "productive_results_judged": int(total.get("layouts", 0)),
        "distinct_nontrivial": len(nontrivial),
        "rule": RULE,
        "samples": samples,
        "distinct_graphs": len(cases),
        "distinct_generator_states": len(states),
        "layouts_checked": int(total.get("layouts", 0)),
        "graphs_with_ez_annotations": int(total.get("has_ez", 0)),
        "nodes_total": int(total.get("nodes", 0)),
        "graph_kinds": {k[5:]: int(v) for k, v in sorted(total.items()) if k.startswith("kind:")},
        "graphs_per_history": {k[18:]: int(v) for k, v in sorted(total.items()) if k.startswith("graphs_in_history:")},
        "op_histogram": {k[3:]: int(v) for k, v in sorted(total.items()) if k.startswith("op:")},
        "graph_object_forms": {k[11:]: int(v) for k, v in sorted(total.items()) if k.startswith("graph-form:")},
        "histories_with_numpy_errors_raised": int(total.get("env:numpy-errors-raise", 0)),
        "histories_with_warnings_as_errors": int(total.get("env:warnings-as-errors", 0)),
        "histories_with_debug_logging": int(total.get("env:debug-logging", 0)),
        "graphs_with_3d_positions": int(total.get("graphs_with_3d_positions", 0)),
        "faults_armed_fired": {k: int(v) for k, v in sorted(total.items()) if k.startswith("fault:")},
        "simulated_time": "not applicable (the layout reads no clock)",
        "components": {"real": ["cgsmiles.graph_layout", "cgsmiles.graph_layout_utils", "cgsmiles.linalg_functions", "networkx", "numpy", "scipy"],
                       "stubbed": []},
    }
