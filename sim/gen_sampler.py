"""
Sampler workload: fragment sets with bonding descriptors, reactivity tables,
terminal sets, masses, targets; plus the small reference model of the
descriptor algebra the sampler is documented to follow.
"""
from collections import defaultdict

from . import gen_mol
from .valence import MASS

NAMES = ["A", "B", "C", "D", "PEO", "PMA", "PS", "GLC", "X1", "Ter"]
BEAD_MASSES = [36.0, 54.0, 72.0, 44.5, 100.0, 165.0]


def norm_key(key):
    """Order-suffix default exactly as documented: no trailing digit means order 1."""
    return key if key[-1].isdigit() else key + "1"


def complements(desc, available):
    """Model of the complement relation. desc/available carry the order digit."""
    kind, order = desc[0], desc[-1]
    if kind == "$":
        return [d for d in available if d[0] == "$" and d[-1] == order]
    if kind in "<>":
        flipped = ("<" if kind == ">" else ">") + desc[1:]
        return [flipped] if flipped in available else []
    return [desc] if desc in available else []


def is_complement(site, partner):
    if site[-1] != partner[-1]:
        return False
    if site[0] == "$":
        return partner[0] == "$"
    if site[0] in "<>":
        return partner[0] in "<>" and partner[0] != site[0] and partner[1:] == site[1:]
    return site == partner


def _zero(rng):
    """Reactivity 0 in the spellings a user might pass (numpy scalars are tagged: scenarios stay plain JSON)."""
    return rng.choice([0.0, 0.0, 0, {"np": "float64", "v": 0.0}, False, -0.0])


def _positive(rng):
    """Positive reactivities: floats, ints, numpy scalars, tiny, huge; rows need not sum to 1."""
    return rng.choice([0.05, 0.1, 0.25, 0.5, 1.0, 3.0, 1, 2, 7, {"np": "float64", "v": 0.3}, {"np": "float32", "v": 0.5},
                       {"np": "int64", "v": 2}, 1e-9, 1e-300, 1e6, 0.1 + 0.2])


def materialise(value):
    """Turn the tagged JSON spelling of a number into the Python / numpy object the user would pass."""
    if isinstance(value, dict) and "np" in value:
        import numpy as np
        return getattr(np, value["np"])(value["v"])
    if isinstance(value, dict):
        return {k: materialise(v) for k, v in value.items()}
    return value


def _species(rng):
    species = []
    n_dollar = rng.choice([0, 1, 1, 2, 3])
    labels = ["", "A", "B", "C", "D", "B2", "A1"]
    rng.shuffle(labels)
    for k in range(n_dollar):
        species.append(("$", labels[k], rng.choice([1, 1, 1, 1, 2])))
    n_dir = rng.choice([0, 1, 1, 2]) if species else rng.choice([1, 1, 2])
    dlabels = ["", "A", "B", "X", "A2", "A1", "X12"]
    rng.shuffle(dlabels)
    if n_dir == 2 and dlabels[0] and rng.random() < 0.2:
        # two labels that differ in letter case only: labels are compared as written
        dlabels[1] = dlabels[0].lower()
    for k in range(n_dir):
        order = rng.choice([1, 1, 1, 2])
        species.append((">", dlabels[k], order))
        species.append(("<", dlabels[k], order))
        if rng.random() < 0.3:
            # the same label again with the other bond order: only equal orders are complementary
            species.append((">", dlabels[k], 3 - order))
            species.append(("<", dlabels[k], 3 - order))
    if species and rng.random() < 0.2:
        kind, label, order = rng.choice([s for s in species if s[0] == "$"] or species)
        if kind == "$":
            species.append(("$", label, 3 - order))
    return species


def _place(rng, mol, species, n_sites, required=(), aromatic_sites=False):
    """Choose descriptor sites on a generated fragment. Returns atom -> [(kind,label,order)]."""
    descs = defaultdict(list)
    budget = {}
    for i, atom in enumerate(mol.atoms):
        if mol.kind == "atomistic":
            # descriptors on aromatic ring atoms only when asked for: the sampler cannot bond through them and
            # raises (nothing is returned, an outcome) - unless a change makes it return something after all
            budget[i] = 0 if ((atom["arom"] and not aromatic_sites) or atom["el"] == "H") else mol.free(i)
            if atom["charge"]:
                budget[i] = 0
            if mol.is_sp(i) and rng.random() < 0.7:
                budget[i] = 0
        else:
            budget[i] = 3
    todo = list(required)
    while len(todo) < n_sites:
        todo.append(rng.choice(species))
    placed = 0
    for spec in todo:
        cands = [i for i in budget if budget[i] >= spec[2]]
        if not cands:
            continue
        i = rng.choice(cands)
        if mol.kind == "atomistic" and spec[2] >= 2 and mol.max_order(i) >= 2:
            continue
        descs[i].append(spec)
        budget[i] -= spec[2]
        placed += 1
    return descs, placed


def _pendant_mol(rng):
    """A vinyl-type repeat unit with a pendant aromatic ring that contains an H-bearing ring nitrogen (pyrrole,
    imidazole, indole) or an N-substituted pyrrole. No descriptor can sit on the ring; the written [nH] hydrogen
    has to survive every growth step and the final hydrogen rebuild."""
    mol = gen_mol.Mol("atomistic")

    def carbon(arom=False):
        return mol.add_atom(el="C", charge=0, arom=arom, cap=4)

    def nitrogen(with_h):
        # pyrrole-type N: two ring bonds (counted 1.5 each) and one more bond (its hydrogen or the substituent)
        atom = mol.add_atom(el="N", charge=0, arom=True, cap=4 if with_h else 3)
        if with_h == "H":
            mol.atoms[atom]["hwrite"] = 1
        return atom

    backbone = [carbon() for _ in range(rng.choice([2, 2, 3]))]
    for a, b in zip(backbone, backbone[1:]):
        mol.add_bond(a, b, 1)
    anchor = rng.choice(backbone)
    for _ in range(rng.choice([0, 1, 1, 2])):
        linker = carbon()
        mol.add_bond(anchor, linker, 1)
        anchor = linker
    kind = rng.choice(["pyrrole", "pyrrole", "imidazole", "indole", "n-pyrrole"])
    if kind == "pyrrole":
        ring = [carbon(True), carbon(True), nitrogen("H"), carbon(True), carbon(True)]
        closures, sites = [(0, 4)], [0, 1, 3, 4]
    elif kind == "n-pyrrole":
        ring = [carbon(True), carbon(True), nitrogen("R"), carbon(True), carbon(True)]
        closures, sites = [(0, 4)], [2]
    elif kind == "imidazole":
        ring = [carbon(True), carbon(True), nitrogen("H"), carbon(True), nitrogen(None)]
        closures, sites = [(0, 4)], [0, 1, 3]
    else:
        ring = [carbon(True), carbon(True), nitrogen("H")] + [carbon(True) for _ in range(6)]
        closures, sites = [(8, 0), (8, 3)], [0, 1, 4, 5, 6, 7]
    for a, b in zip(ring, ring[1:]):
        mol.add_bond(a, b, 1.5)
    for a, b in closures:
        mol.add_bond(ring[a], ring[b], 1.5)
    mol.add_bond(anchor, ring[rng.choice(sites)], 1)
    return mol


def gen_config(rng, all_atom=None, tier="quick"):
    all_atom = (rng.random() < 0.65) if all_atom is None else all_atom
    wild = rng.random() < 0.15
    weighted = rng.random() < 0.35
    hyper = rng.random() < 0.35
    import os
    aromatic_sites = rng.random() < float(os.environ.get("VERIF_AROMATIC_SITES", "0.2"))
    explicit_h = rng.random() < 0.25
    # pendant rings with an H-bearing aromatic nitrogen: the ring is kekulised by the final hydrogen rebuild
    pendant = bool(all_atom) and rng.random() < 0.06
    if pendant:
        aromatic_sites, hyper, explicit_h = False, False, False
    species = _species(rng)
    n_frag = rng.choice([1, 2, 2, 3, 3, 4])
    names = rng.sample(NAMES, n_frag)
    frags = []
    # make the set closed: every directional species should occur with both arrows
    pending = [s for s in species if s[0] in "<>"] if not wild else []
    rng.shuffle(pending)
    for idx, name in enumerate(names):
        for _ in range(8):
            if pendant and (idx == 0 or rng.random() < 0.6):
                mol = _pendant_mol(rng)
            elif all_atom:
                mol = gen_mol.gen_atomistic(rng, rng.randint(1, 7) if not aromatic_sites else rng.randint(4, 10),
                                            rich=(rng.random() < 0.35) or aromatic_sites,
                                            hyper=(("S", "P", "N", "exotic") if rng.random() < 0.3 else ("S", "P", "N")) if hyper else (), explicit_h=explicit_h)
                if weighted:
                    for atom in mol.atoms:
                        if not atom["arom"] and atom["el"] != "H" and rng.random() < 0.4:
                            atom["w"] = rng.choice([0.5, 2.0, 0, 0.25, 3.0])
                            atom["wpos"] = rng.random() < 0.7
            else:
                mol = gen_mol.gen_coarse(rng, rng.randint(1, 5))
            share = [pending.pop() for _ in range(min(len(pending), -(-len(pending) // (n_frag - idx))))]
            n_sites = rng.choice([1, 2, 2, 3, 4])
            descs, placed = _place(rng, mol, species, max(n_sites, len(share)), required=share, aromatic_sites=aromatic_sites)
            missing = [s for s in share if not any(s in v for v in descs.values())]
            if placed >= 1 and not missing:
                break
            pending.extend(share)
        else:
            descs, placed = _place(rng, mol, species, 1)
        for i in descs:
            rng.shuffle(descs[i])
        if all_atom and rng.random() < 0.3:
            # bracket atoms that state their hydrogen count, e.g. [>]C[CH;x=R]([<])C or [CH2;0.5]
            for i, atom in enumerate(mol.atoms):
                if atom["el"] != "H" and not atom["arom"] and (atom.get("w") is not None or rng.random() < 0.2):
                    count = mol.hfill(i) - sum(d[2] for d in descs.get(i, []))
                    if count >= 0:
                        atom["hwrite"] = count
        members = list(range(len(mol.atoms)))
        fmt = "smiles" if all_atom else "cg"
        text, appearance = gen_mol.write_graph_text(
            rng, members, {a: gen_mol._atom_text(mol.atoms[a]) for a in members}, dict(mol.bonds), descs, fmt)
        template = {
            "name": name, "text": text,
            "atoms": [dict(mol.atoms[a]) for a in appearance],
            "bonds": sorted([min(appearance.index(i), appearance.index(j)), max(appearance.index(i), appearance.index(j)), o]
                            for (i, j), o in mol.bonds.items()),
            "descs": {str(pos): ["%s%s%d" % d for d in descs[a]] for pos, a in enumerate(appearance) if descs.get(a)},
            "hfill": [mol.hfill(a) if all_atom else 0 for a in appearance],
        }
        if all_atom:
            # per-atom valence bookkeeping for the hydrogen-count oracle: bonds in use (explicit hydrogens included),
            # admissible valence states, explicit hydrogen neighbours
            template["used"] = [mol.used(a) for a in appearance]
            template["states"] = [([mol.atoms[a]["cap"]] if mol.atoms[a]["arom"] else
                                   gen_mol.VALENCE_STATES.get((mol.atoms[a]["el"], mol.atoms[a]["charge"]), [mol.atoms[a]["cap"]]))
                                  for a in appearance]
            template["xh"] = [sum(1 for b in mol.adj[a] if mol.atoms[b]["el"] == "H") for a in appearance]
            template["nh_ring"] = any(at["arom"] and at["el"] == "N" and at["cap"] == 4 for at in mol.atoms)
        if all_atom:
            template["mass"] = sum(MASS[mol.atoms[a]["el"]] for a in appearance) + MASS["H"] * sum(template["hfill"])
            if rng.random() < 0.12:
                # a counter ion / free ion written as a disconnected part of the fragment
                ion, ion_mass = rng.choice([(".[NH4+]", MASS["N"] + 4 * MASS["H"]), (".[OH-]", MASS["O"] + MASS["H"]),
                                            (".[Na+]", MASS["Na"]), (".[Cl-]", MASS["Cl"]), (".[OH3+]", MASS["O"] + 3 * MASS["H"])])
                template["text"] = text + ion
                template["mass"] += ion_mass
        frags.append(template)
    dollar = sorted({d for f in frags for ds in f["descs"].values() for d in ds if d[0] == "$" and d[-1] == "1"})
    if all_atom and dollar and rng.random() < 0.12:
        # a hydrogen end group: a fragment that is a single hydrogen atom
        desc = rng.choice(dollar)
        frags.append({"name": "Hter", "text": "[%s][H]" % desc[:-1], "atoms": [{"el": "H", "charge": 0, "arom": False, "cap": 1}],
                      "bonds": [], "descs": {"0": [desc]}, "hfill": [0], "mass": MASS["H"]})
    all_descs = sorted({d for f in frags for ds in f["descs"].values() for d in ds})

    def user_key(desc):
        # the order suffix may be omitted for order 1 - unless the label itself ends in a digit
        if desc[-1] == "1" and not desc[-2:-1].isdigit() and rng.random() < 0.6:
            return desc[:-1]
        return desc

    # --- reactivity tables -----------------------------------------------------
    poly = {}
    if rng.random() > 0.25:
        for d in all_descs:
            if rng.random() < 0.08:
                continue  # missing key (treated as 0 by the code, not judged)
            poly[user_key(d)] = _zero(rng) if rng.random() < (0.2 if not wild else 0.4) else _positive(rng)
        if all(materialise(v) == 0 for v in poly.values()) and poly and not wild:
            poly[rng.choice(sorted(poly))] = 1.0
    frag_react = {}
    full_matrix = rng.random() < 0.4
    if rng.random() < 0.6:
        for d in all_descs:
            if rng.random() < 0.8:
                row = {}
                if rng.random() > 0.1:
                    # a row lists the admissible partners, or (as in the class docstring) every descriptor of
                    # the set: entries for descriptors that are no complement of d must simply be ignored
                    listed = complements(d, all_descs) if not full_matrix else list(all_descs)
                    for c in listed:
                        if rng.random() < 0.1:
                            continue
                        row[user_key(c)] = _zero(rng) if rng.random() < 0.35 else _positive(rng)
                    admissible = [k for k in sorted(row) if norm_key(k) in complements(d, all_descs)]
                    if admissible and all(materialise(row[k]) == 0 for k in admissible) and not wild:
                        row[rng.choice(admissible)] = 1.0
                frag_react[user_key(d)] = row
    terminal = []
    if rng.random() < 0.4 and all_descs:
        terminal = [user_key(d) for d in rng.sample(all_descs, k=min(len(all_descs), rng.choice([1, 1, 2])))]
    masses = None
    if not all_atom or rng.random() < 0.2:
        entries = [(f["name"], rng.choice(BEAD_MASSES + [72, 100, 12])) for f in frags]
        if rng.random() < 0.4:
            # a table shared between projects: entries for names that are not in the fragment set
            entries += [("UNUSED", 1.0e9), ("Zz", 0.0)]
        if rng.random() < 0.6:
            rng.shuffle(entries)          # a dict need not list the fragments in fragment-string order
        masses = dict(entries)
    mass_of = masses or {f["name"]: f["mass"] for f in frags}
    mean_mass = sum(mass_of.values()) / len(mass_of)
    steps = rng.choice([0, 1, 2, 3, 5, 8, 13, 21, 34, 55, 110] if tier == "thorough" else [0, 1, 2, 3, 4, 6, 9, 11, 14, 22, 22] + ([105] if rng.random() < 0.15 else [14]))
    if rng.random() < 0.004:
        steps = rng.choice([1050, 1100, 1300])     # occasionally a really long chain (more than a thousand growth steps)
    target = rng.choice([steps * mean_mass * rng.uniform(0.7, 1.2), steps * mean_mass, -5.0, 0.0]) if rng.random() < 0.2 \
        else steps * mean_mass * rng.uniform(0.8, 1.1)
    # bound the number of growth steps (smallest mass decides): long runs are occasional, never unbounded
    cap_steps = 1500 if steps > 1000 else (130 if steps > 60 else 60)
    target = min(target, cap_steps * min(m for n, m in mass_of.items() if n in {f["name"] for f in frags}))
    start = rng.choice([f["name"] for f in frags]) if rng.random() < 0.4 else None
    return {
        "all_atom": all_atom, "wild": wild, "pendant": pendant,
        "explicit_h": any(a.get("el") == "H" for f in frags for a in f["atoms"]),
        "string": "{" + ",".join("#%s=%s" % (f["name"], f["text"]) for f in frags) + "}",
        "templates": frags,
        "polymer_reactivities": poly, "fragment_reactivities": frag_react, "terminal_bonds": terminal,
        "fragment_masses": masses, "target": float(target), "start_fragment": start,
        "descriptors": all_descs,
    }


def vary_tables(rng, cfg):
    """Same fragments, other reactivities / terminals / target: a second user of the same chemistry."""
    import copy
    new = copy.deepcopy(cfg)
    descs = cfg["descriptors"]
    poly = {}
    for d in descs:
        poly[d] = 0.0 if rng.random() < 0.3 else rng.choice([0.05, 0.2, 0.5, 1.0, 2.0])
    if poly and all(v == 0 for v in poly.values()):
        poly[rng.choice(sorted(poly))] = 1.0
    new["polymer_reactivities"] = poly if rng.random() < 0.8 else {}
    frag = {}
    if rng.random() < 0.6:
        for d in descs:
            if rng.random() < 0.7:
                row = {c: (0.0 if rng.random() < 0.35 else rng.choice([0.1, 0.5, 1.0])) for c in complements(d, descs)}
                if row and all(v == 0 for v in row.values()):
                    row[rng.choice(sorted(row))] = 1.0
                frag[d] = row
    new["fragment_reactivities"] = frag
    new["terminal_bonds"] = [d for d in descs if rng.random() < 0.15]
    new["target"] = float(cfg["target"]) * rng.choice([0.5, 1.0, 1.0, 2.0])
    return new
