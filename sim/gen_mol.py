"""
Workload generator: molecules with a known leaf decomposition and a known
hierarchy of groupings ("reference by construction").

A generated item carries
  * the constructed molecule (heavy atoms, bonds, expected hydrogen counts),
  * its partition into leaf fragments, every cut bond written as a uniquely
    labelled pair of complementary descriptors,
  * 0..3 contractions of the leaf graph into intermediate levels,
  * the multi-level CGsmiles string, the flattened two-level string and the
    individual pieces (base graph, fragment blocks).

Nothing here calls the code under test; the admission self-check that reads
every piece on its own lives in sim.admit.
"""
from collections import defaultdict

VALENCE = {("C", 0): 4, ("N", 0): 3, ("O", 0): 2, ("S", 0): 2, ("F", 0): 1,
           ("Cl", 0): 1, ("Br", 0): 1, ("N", 1): 4, ("O", -1): 1}
# higher valence states of multi-valent elements (hydrogens complete the SMALLEST state that fits)
VALENCE_STATES = {("S", 0): [2, 4, 6], ("P", 0): [3, 5], ("N", 0): [3, 5]}
VALENCE[("P", 0)] = 3
VALENCE.update({("C", 1): 3, ("C", -1): 3, ("B", -1): 4, ("B", 0): 3})
ORDER_SYMBOL = {1: "", 2: "=", 3: "#", 1.5: ""}

# charged atoms of groups 13/14 (the charge moves the valence the other way than for N/O)
EXOTIC_WEIGHTS = [(("C", 1), 2), (("C", -1), 2), (("B", -1), 2), (("B", 0), 2)]
ELEMENT_WEIGHTS = [(("C", 0), 58), (("N", 0), 11), (("O", 0), 14), (("S", 0), 4),
                   (("F", 0), 3), (("Cl", 0), 3), (("Br", 0), 1), (("N", 1), 3), (("O", -1), 3)]
BEAD_NAMES = ["P1", "P2", "C1", "C2", "N0", "Qa", "SC3", "TC5", "X", "SN4a", "TP1d", "C6", "Na", "Qd"]


def _wchoice(rng, pairs):
    total = sum(w for _, w in pairs)
    x = rng.random() * total
    acc = 0
    for item, w in pairs:
        acc += w
        if x < acc:
            return item
    return pairs[-1][0]


class Mol:
    """Constructed molecule: heavy atoms (or beads) and bonds with orders."""

    def __init__(self, kind):
        self.kind = kind            # 'atomistic' | 'coarse'
        self.atoms = []             # dicts: el, charge, arom, cap | name, cap
        self.bonds = {}             # (i, j) i<j -> order
        self.adj = defaultdict(dict)

    def add_atom(self, **attrs):
        self.atoms.append(attrs)
        return len(self.atoms) - 1

    def add_bond(self, i, j, order):
        assert i != j and (min(i, j), max(i, j)) not in self.bonds
        self.bonds[(min(i, j), max(i, j))] = order
        self.adj[i][j] = order
        self.adj[j][i] = order

    def used(self, i):
        return sum(self.adj[i].values())

    def free(self, i):
        return int(self.atoms[i]["cap"] - self.used(i))

    def hfill(self, i):
        """Hydrogens that complete atom i: smallest valence state that fits its bonds, minus the bonds."""
        atom = self.atoms[i]
        if self.kind != "atomistic" or atom["el"] == "H":
            return 0
        used = self.used(i)
        states = VALENCE_STATES.get((atom["el"], atom["charge"]), [atom["cap"]]) if not atom["arom"] else [atom["cap"]]
        fits = [v for v in states if v >= used]
        return int((fits[0] if fits else used) - used)

    def max_order(self, i):
        return max(self.adj[i].values(), default=0)

    def is_sp(self, i):
        orders = [o for o in self.adj[i].values() if o != 1.5]
        return 3 in orders or orders.count(2) >= 2

    def dist(self, src, limit=8):
        seen = {src: 0}
        frontier = [src]
        while frontier:
            nxt = []
            for a in frontier:
                if seen[a] >= limit:
                    continue
                for b in self.adj[a]:
                    if b not in seen:
                        seen[b] = seen[a] + 1
                        nxt.append(b)
            frontier = nxt
        return seen

    def path(self, a, b):
        prev = {a: None}
        frontier = [a]
        while frontier and b not in prev:
            nxt = []
            for x in frontier:
                for y in self.adj[x]:
                    if y not in prev:
                        prev[y] = x
                        nxt.append(y)
            frontier = nxt
        out = [b]
        while prev[out[-1]] is not None:
            out.append(prev[out[-1]])
        return out


def gen_atomistic(rng, n_target, rich=True, hyper=(), explicit_h=False):
    """hyper: elements that may take a higher valence state, e.g. ("S", "P", "N")."""
    mol = Mol("atomistic")
    weights = list(ELEMENT_WEIGHTS) + ([(("P", 0), 3), (("S", 0), 4)] if hyper else []) + (EXOTIC_WEIGHTS if "exotic" in hyper else [])

    def new_atom(key, arom=False):
        cap = VALENCE[key]
        if key[0] in hyper and key in VALENCE_STATES and not arom and rng.random() < 0.5:
            cap = rng.choice(VALENCE_STATES[key][1:])
        return mol.add_atom(el=key[0], charge=key[1], arom=arom, cap=cap)

    new_atom(("C", 0))
    guard = 0
    while len(mol.atoms) < n_target and guard < 400:
        guard += 1
        action = _wchoice(rng, [("atom", 70), ("benzene", 7 if rich else 0), ("ring", 14 if rich else 4)])
        if action == "atom":
            cands = [i for i in range(len(mol.atoms)) if mol.free(i) >= 1]
            if not cands:
                break
            a = rng.choice(cands)
            key = _wchoice(rng, weights)
            order = _wchoice(rng, [(1, 84), (2, 13), (3, 3)])
            if mol.atoms[a]["cap"] > VALENCE[(mol.atoms[a]["el"], mol.atoms[a]["charge"])] and key == ("O", 0) and rng.random() < 0.6:
                order = 2     # sulfoxide / sulfone / phosphate / nitro style oxygens
            order = min(order, mol.free(a), VALENCE[key])
            if mol.atoms[a]["arom"]:
                order = 1
            if order == 3 and not (mol.atoms[a]["el"] in "CN" and key[0] in "CN"):
                order = 1
            if order == 2 and (key[0] in ("F", "Cl", "Br") or mol.atoms[a]["charge"] or key[1]):
                order = 1
            hypervalent = mol.atoms[a]["cap"] > VALENCE[(mol.atoms[a]["el"], mol.atoms[a]["charge"])]
            if order >= 2 and (mol.max_order(a) >= 2) and not hypervalent:
                order = 1  # keep allenes / cumulenes out (sp centres strain rings and embedding)
            if order == 3 and hypervalent:
                order = 2
            b = new_atom(key)
            mol.add_bond(a, b, order)
        elif action == "benzene":
            cands = [i for i in range(len(mol.atoms))
                     if mol.free(i) >= 1 and not mol.atoms[i]["arom"] and mol.atoms[i]["el"] in ("C", "N", "O", "S")
                     and not mol.atoms[i]["charge"]]
            if not cands or len(mol.atoms) + 6 > n_target + 3:
                continue
            a = rng.choice(cands)
            ring = [new_atom(("C", 0), arom=True) for _ in range(6)]
            if rng.random() < 0.3:
                # pyridine: one aromatic nitrogen (not the attachment atom); it has no free valence
                k = rng.randrange(1, 6)
                mol.atoms[ring[k]].update(el="N", cap=3)
            for k in range(6):
                mol.add_bond(ring[k], ring[(k + 1) % 6], 1.5)
            mol.add_bond(a, ring[0], 1)
        else:
            ok = [i for i in range(len(mol.atoms))
                  if mol.free(i) >= 1 and not mol.atoms[i]["arom"] and mol.max_order(i) <= 1
                  and mol.atoms[i]["el"] in ("C", "N") and not mol.atoms[i]["charge"]]
            rng.shuffle(ok)
            done = False
            for a in ok[:6]:
                dist = mol.dist(a, limit=6)
                partners = [b for b in ok if b != a and dist.get(b) in (4, 5)]
                rng.shuffle(partners)
                for b in partners[:4]:
                    path = mol.path(a, b)
                    if any(mol.is_sp(x) or mol.atoms[x]["arom"] for x in path):
                        continue
                    mol.add_bond(a, b, 1)
                    done = True
                    break
                if done:
                    break
    if explicit_h:
        # hydrogens written out as atoms of their own (kept by the reader because they carry an annotation)
        for i in range(len(mol.atoms)):
            atom = mol.atoms[i]
            # only on elements with a single valence state: on S/P/N a written hydrogen plus later bonds could
            # push the atom into the next state, where 'smallest fitting valence' and 'written hydrogens are
            # kept' no longer say the same thing
            if atom["el"] in ("C", "O") and not atom["arom"] and not atom["charge"] and mol.hfill(i) >= 1 and rng.random() < 0.2:
                h = mol.add_atom(el="H", charge=0, arom=False, cap=1, w=rng.choice([0.5, 0.2, 2.0]), wpos=rng.random() < 0.7, explicit=True)
                mol.add_bond(i, h, 1)
    return mol


def disjoint_union(mols):
    """Several molecules in one system (a salt, a mixture): components never share a bond."""
    out = Mol(mols[0].kind)
    for mol in mols:
        offset = len(out.atoms)
        for atom in mol.atoms:
            out.add_atom(**atom)
        for (i, j), order in mol.bonds.items():
            out.add_bond(i + offset, j + offset, order)
    return out


def gen_coarse(rng, n_target):
    mol = Mol("coarse")
    names = rng.sample(BEAD_NAMES, k=rng.randint(2, 6))

    def new_bead():
        return mol.add_atom(name=rng.choice(names), cap=rng.choice([3, 4, 4, 5]))

    new_bead()
    guard = 0
    while len(mol.atoms) < n_target and guard < 300:
        guard += 1
        if rng.random() < 0.82:
            cands = [i for i in range(len(mol.atoms)) if mol.free(i) >= 1]
            if not cands:
                break
            a = rng.choice(cands)
            b = new_bead()
            order = min(_wchoice(rng, [(1, 80), (2, 15), (3, 5)]), mol.free(a), mol.free(b))
            mol.add_bond(a, b, order)
        else:
            ok = [i for i in range(len(mol.atoms)) if mol.free(i) >= 1]
            rng.shuffle(ok)
            done = False
            for a in ok[:6]:
                dist = mol.dist(a, limit=5)
                partners = [b for b in ok if b != a and dist.get(b, 0) >= 2]
                if partners:
                    b = rng.choice(partners)
                    order = min(_wchoice(rng, [(1, 80), (2, 20)]), mol.free(a), mol.free(b))
                    mol.add_bond(a, b, order)
                    done = True
                if done:
                    break
    return mol


# ---------------------------------------------------------------------------
# partition into leaves and hierarchy
# ---------------------------------------------------------------------------

def _components_units(mol):
    """Aromatic rings are indivisible units; everything else is a singleton."""
    unit_of = {}
    units = []
    seen = set()
    for i, atom in enumerate(mol.atoms):
        if i in seen:
            continue
        if atom.get("arom"):
            comp = []
            stack = [i]
            seen.add(i)
            while stack:
                x = stack.pop()
                comp.append(x)
                for y, order in mol.adj[x].items():
                    if order == 1.5 and y not in seen:
                        seen.add(y)
                        stack.append(y)
            units.append(sorted(comp))
        elif atom.get("el") == "H":
            continue
        else:
            seen.add(i)
            units.append([i])
    for uid, unit in enumerate(units):
        for i in unit:
            unit_of[i] = uid
    for i, atom in enumerate(mol.atoms):
        if atom.get("el") == "H" and i not in unit_of:
            parent = next(iter(mol.adj[i]))
            units[unit_of[parent]].append(i)
            unit_of[i] = unit_of[parent]
    return units, unit_of


def _grow_partition(rng, n_items, adjacency, n_groups):
    """Random connected partition of items 0..n-1 (adjacency: dict item -> set)."""
    n_groups = max(1, min(n_groups, n_items))
    seeds = rng.sample(range(n_items), n_groups)
    group = {s: g for g, s in enumerate(seeds)}
    frontier = list(seeds)
    while len(group) < n_items:
        if not frontier:
            # disconnected input: start a new group
            rest = [i for i in range(n_items) if i not in group]
            s = rng.choice(rest)
            group[s] = max(group.values()) + 1
            frontier.append(s)
            continue
        x = frontier[rng.randrange(len(frontier))]
        free = [y for y in sorted(adjacency[x]) if y not in group]
        if not free:
            frontier.remove(x)
            continue
        y = rng.choice(free)
        group[y] = group[x]
        frontier.append(y)
    return group


def _cap_multiplicity(group, cross_edges, cap):
    """Merge groups while some pair of groups is joined by more than cap edges."""
    parent = {g: g for g in set(group.values())}

    def find(g):
        while parent[g] != g:
            parent[g] = parent[parent[g]]
            g = parent[g]
        return g

    while True:
        count = defaultdict(int)
        for a, b in cross_edges:
            ga, gb = find(group[a]), find(group[b])
            if ga != gb:
                count[(min(ga, gb), max(ga, gb))] += 1
        bad = sorted(k for k, v in count.items() if v > cap)
        if not bad:
            break
        ga, gb = bad[0]
        parent[gb] = ga
    roots = sorted({find(g) for g in parent})
    remap = {r: i for i, r in enumerate(roots)}
    return {x: remap[find(g)] for x, g in group.items()}


class Level:
    """One level of the hierarchy: nodes with names and edges with orders."""

    def __init__(self):
        self.names = []       # node -> name
        self.members = []     # node -> list of nodes of the finer level (atoms for leaves)
        self.edges = {}       # (a, b) a<b -> order


def build_hierarchy(rng, mol, n_leaves, n_mid_levels, max_order=3):
    units, unit_of = _components_units(mol)
    uadj = defaultdict(set)
    for (i, j) in mol.bonds:
        if unit_of[i] != unit_of[j]:
            uadj[unit_of[i]].add(unit_of[j])
            uadj[unit_of[j]].add(unit_of[i])
    ugroup = _grow_partition(rng, len(units), uadj, n_leaves)
    agroup = {i: ugroup[unit_of[i]] for i in range(len(mol.atoms))}
    agroup = _cap_multiplicity(agroup, list(mol.bonds), max_order)
    n = max(agroup.values()) + 1
    leaf = Level()
    leaf.members = [[] for _ in range(n)]
    for i in range(len(mol.atoms)):
        leaf.members[agroup[i]].append(i)
    leaf.names = ["F%d" % (k + 1) for k in range(n)]
    for (i, j) in sorted(mol.bonds):
        a, b = agroup[i], agroup[j]
        if a != b:
            key = (min(a, b), max(a, b))
            leaf.edges[key] = leaf.edges.get(key, 0) + 1
    levels = [leaf]
    prefixes = ["S", "T", "U", "V"]
    for depth in range(n_mid_levels):
        fine = levels[0]
        n_fine = len(fine.names)
        if n_fine < 2:
            break
        adj = defaultdict(set)
        for (a, b) in fine.edges:
            adj[a].add(b)
            adj[b].add(a)
        n_groups = rng.randint(1, max(1, n_fine - 1))
        group = _grow_partition(rng, n_fine, adj, n_groups)
        group = _cap_multiplicity(group, list(fine.edges), max_order)
        m = max(group.values()) + 1
        coarse = Level()
        coarse.members = [[] for _ in range(m)]
        for x in range(n_fine):
            coarse.members[group[x]].append(x)
        coarse.names = ["%s%d" % (prefixes[depth], k + 1) for k in range(m)]
        for (a, b) in sorted(fine.edges):
            ga, gb = group[a], group[b]
            if ga != gb:
                key = (min(ga, gb), max(ga, gb))
                coarse.edges[key] = coarse.edges.get(key, 0) + 1
        levels.insert(0, coarse)
    # every {...} block is its own namespace: now and then a name is reused at two levels
    if len(levels) > 1 and rng.random() < 0.35:
        for depth in range(len(levels) - 1):
            coarse = levels[depth]
            pool = [name for lvl in levels[depth + 1:] for name in lvl.names]
            for g in range(len(coarse.names)):
                if rng.random() < 0.5:
                    cands = [name for name in pool if name not in coarse.names]
                    if cands:
                        coarse.names[g] = rng.choice(cands)
    return levels, agroup


# ---------------------------------------------------------------------------
# writers
# ---------------------------------------------------------------------------

def _atom_text(atom):
    if "name" in atom:
        return "[#%s]" % atom["name"]
    if atom["arom"]:
        if atom.get("hwrite"):
            return "[%sH]" % atom["el"].lower()
        return atom["el"].lower()
    if atom["el"] == "H":
        return "[H%s]" % ((";%s" if atom.get("wpos", True) else ";w=%s") % atom["w"])
    weight = ""
    if atom.get("w") is not None:
        weight = (";%s" if atom.get("wpos", True) else ";w=%s") % atom["w"]
    # a bracket atom may state its hydrogen count ([CH2;0.5], [CH], [NH3+]); the count is what the atom has
    # when every descriptor written on it is used
    hcount = ""
    if atom.get("hwrite") is not None and atom["hwrite"] > 0:
        hcount = "H" if atom["hwrite"] == 1 else "H%d" % atom["hwrite"]
    if atom["charge"] == 1:
        return "[%s%s+%s]" % (atom["el"], hcount, weight)
    if atom["charge"] == -1:
        return "[%s%s-%s]" % (atom["el"], hcount, weight)
    if weight or atom.get("hwrite") is not None:
        return "[%s%s%s]" % (atom["el"], hcount, weight)
    return atom["el"]


def _desc_text(desc, leading=False):
    kind, label, order = desc
    sym = ORDER_SYMBOL[order]
    core = "[%s%s]" % (kind, label)
    return core + sym if leading else sym + core


def write_graph_text(rng, nodes, node_text, edges, descriptors, fmt, shuffle=True, allow_leading=True):
    """
    Write a connected graph as SMILES ('smiles') or CGsmiles node sequence
    ('cg') with bonding descriptors.

    nodes: list of node ids; node_text: id -> token; edges: {(a,b): order};
    descriptors: id -> list of (kind, label, order).
    Returns (text, order_of_appearance).
    """
    adj = defaultdict(dict)
    for (a, b), order in edges.items():
        adj[a][b] = order
        adj[b][a] = order
    # spanning tree that contains every bond of order > 1 if possible, so that
    # ring-closure bonds are single/aromatic and need no symbol
    edge_list = sorted(edges)
    if shuffle:
        rng.shuffle(edge_list)
    edge_list.sort(key=lambda e: 0 if edges[e] in (2, 3) else 1)
    parent = {x: x for x in nodes}

    def find(x):
        while parent[x] != x:
            parent[x] = parent[parent[x]]
            x = parent[x]
        return x

    tree = defaultdict(list)
    closures = []
    for (a, b) in edge_list:
        ra, rb = find(a), find(b)
        if ra != rb:
            parent[ra] = rb
            tree[a].append(b)
            tree[b].append(a)
        else:
            closures.append((a, b))
    root = rng.choice(sorted(nodes)) if shuffle else sorted(nodes)[0]
    closure_at = defaultdict(list)
    for cid, (a, b) in enumerate(closures):
        closure_at[a].append(cid)
        closure_at[b].append(cid)
    open_digits = {}
    used_digits = set()
    appearance = []
    out = []
    # ring-bond labels: the smallest free digit, or (valid just the same) two-digit %nn labels
    # (only in SMILES text: the coarse-graph reader has its own limits with %nn labels - C04, not judged here)
    # Two-digit labels only in SMILES text. In coarse definitions the unchanged reader does not accept them
    # reliably (a definition that ends in a %nn label is reported as a dangling ring index because the cleaned
    # text reaches read_cgsmiles without a closing brace; a label directly followed by '(' or ')' or by a
    # one-digit label is misread): C04/C13 territory, which this technique does not judge.
    first_label = 1 if (not shuffle or fmt != "smiles" or rng.random() < 0.8) else rng.choice([10, 12, 37, 90])
    late_descs = shuffle and rng.random() < 0.3      # descriptors written after the branches of their atom

    def ring_tokens(x):
        toks = []
        has_symbol = False
        cids = list(closure_at.get(x, []))
        if shuffle:
            rng.shuffle(cids)
        for cid in cids:
            if cid in open_digits:
                digit = open_digits.pop(cid)
                used_digits.discard(digit)
                sym = ""
            else:
                digit = first_label
                while digit in used_digits:
                    digit += 1
                if digit > 99:          # ring-bond labels have at most two digits
                    digit = 1
                    while digit in used_digits:
                        digit += 1
                used_digits.add(digit)
                open_digits[cid] = digit
                sym = ORDER_SYMBOL[edges[tuple(sorted(closures[cid]))]] if tuple(sorted(closures[cid])) in edges else ""
                if sym:
                    has_symbol = True
            toks.append(sym + (str(digit) if digit < 10 else "%%%d" % digit))
        return "".join(toks), has_symbol

    def visit(x, par, first):
        appearance.append(x)
        descs = list(descriptors.get(x, []))
        lead = ""
        if first and descs and allow_leading and rng.random() < 0.35:
            k = rng.randint(1, len(descs))
            lead = "".join(_desc_text(d, leading=True) for d in descs[:k])
            descs = descs[k:]
        rings, has_symbol = ring_tokens(x)
        dtext = "".join(_desc_text(d) for d in descs)
        kids = [y for y in tree[x] if y != par]
        if shuffle:
            rng.shuffle(kids)
        # "[>]CC(C)(C(=O)OC)[<]": a descriptor may also follow the branches of its atom
        after_branches = bool(late_descs and dtext and len(kids) >= 2 and rng.random() < 0.7)
        if after_branches:
            body = node_text[x] + rings
        elif has_symbol or rng.random() < 0.5:
            body = node_text[x] + dtext + rings
        else:
            body = node_text[x] + rings + dtext
        out.append(lead + body)
        # (every child in parentheses only in SMILES text: the coarse-graph reader's bookkeeping of a branch that
        # ends in '))' is C04's subject, not judged here)
        all_in_branches = after_branches and fmt == "smiles" and rng.random() < 0.5
        for idx, y in enumerate(kids):
            sym = ORDER_SYMBOL[adj[x][y]]
            last = idx == len(kids) - 1
            if last and after_branches and not all_in_branches:
                out.append(dtext)
            branch = (not last) or all_in_branches
            if fmt == "smiles":
                if branch:
                    out.append("(" + sym)
                    visit(y, x, False)
                    out.append(")")
                else:
                    out.append(sym)
                    visit(y, x, False)
            else:
                out.append(sym)
                if branch:
                    out.append("(")
                    visit(y, x, False)
                    out.append(")")
                else:
                    visit(y, x, False)
        if after_branches and all_in_branches:
            out.append(dtext)

    import sys
    sys.setrecursionlimit(max(sys.getrecursionlimit(), 5000))
    visit(root, None, True)
    return "".join(out), appearance


# ---------------------------------------------------------------------------
# items
# ---------------------------------------------------------------------------

def _make_labels(rng, n):
    alphabet = "abcdefghkmnpqrstuvwxyz"
    labels = set()
    out = []
    while len(out) < n:
        lab = rng.choice(alphabet) + (rng.choice(alphabet + "0123456789") if rng.random() < 0.6 else "")
        if lab not in labels:
            labels.add(lab)
            out.append(lab)
    return out


def expected_hcounts(mol):
    """Total hydrogens per heavy atom: completed ones plus those written out as atoms."""
    out = []
    for i, atom in enumerate(mol.atoms):
        if mol.kind != "atomistic" or atom["el"] == "H":
            out.append(0)
        else:
            out.append(mol.hfill(i) + sum(1 for j in mol.adj[i] if mol.atoms[j]["el"] == "H"))
    return out


def build_item(rng, kind=None, size=None, n_leaves=None, mid_levels=None, weights=False, hyper=(), explicit_h=False,
               components=1):
    """Generate one workload item (plain data, JSON-able)."""
    kind = kind or ("atomistic" if rng.random() < 0.7 else "coarse")
    size = size or rng.randint(3, 26)
    if components > 1:
        parts = [gen_atomistic(rng, max(2, size // components), hyper=hyper, explicit_h=explicit_h) if kind == "atomistic"
                 else gen_coarse(rng, max(2, size // components)) for _ in range(components)]
        mol = disjoint_union(parts)
    elif kind == "atomistic":
        mol = gen_atomistic(rng, size, hyper=hyper, explicit_h=explicit_h)
        if weights:
            for atom in mol.atoms:
                if not atom["arom"] and atom["el"] != "H" and rng.random() < 0.45:
                    atom["w"] = rng.choice([0.5, 0.25, 2.0, 3.0, 0.1, 1.5, 0])
                    atom["wpos"] = rng.random() < 0.7
    else:
        mol = gen_coarse(rng, size)
    if kind == "atomistic" and rng.random() < 0.3:
        for i, atom in enumerate(mol.atoms):
            if atom["el"] != "H" and not atom["arom"] and (atom.get("w") is not None or rng.random() < 0.15) and rng.random() < 0.6:
                atom["hwrite"] = mol.hfill(i)
    n_leaves = n_leaves or rng.randint(1, min(8, max(1, len(mol.atoms) // 2 + 1)))
    mid_levels = rng.choice([0, 1, 1, 2, 2, 3]) if mid_levels is None else mid_levels
    levels, agroup = build_hierarchy(rng, mol, n_leaves, mid_levels)
    leaf = levels[-1]
    fmt = "smiles" if kind == "atomistic" else "cg"

    # --- leaf block -------------------------------------------------------
    cut_bonds = [(i, j) for (i, j) in sorted(mol.bonds) if agroup[i] != agroup[j]]
    labels = _make_labels(rng, len(cut_bonds) + sum(len(l.edges) for l in levels) + 4)
    label_iter = iter(labels)
    descs = defaultdict(list)
    cut_info = []
    for (i, j) in cut_bonds:
        label = next(label_iter)
        order = mol.bonds[(i, j)]
        if rng.random() < 0.5:
            ki, kj = "$", "$"
        elif rng.random() < 0.5:
            ki, kj = ">", "<"
        else:
            ki, kj = "<", ">"
        descs[i].append((ki, label, order))
        descs[j].append((kj, label, order))
        cut_info.append({"atoms": [i, j], "label": label, "order": order, "kinds": [ki, kj]})
    for i in descs:
        rng.shuffle(descs[i])
    leaf_defs = []
    leaf_appearance = {}
    for lid, members in enumerate(leaf.members):
        sub_edges = {(a, b): o for (a, b), o in mol.bonds.items() if agroup[a] == lid and agroup[b] == lid}
        text, appearance = write_graph_text(rng, members, {a: _atom_text(mol.atoms[a]) for a in members},
                                            sub_edges, descs, fmt)
        leaf_defs.append((leaf.names[lid], text))
        leaf_appearance[lid] = appearance

    # --- group definitions -------------------------------------------------
    blocks = []
    group_specs = []
    for depth in range(len(levels) - 1):
        coarse, fine = levels[depth], levels[depth + 1]
        group_of = {}
        for gid, members in enumerate(coarse.members):
            for x in members:
                group_of[x] = gid
        gdescs = defaultdict(list)
        for (a, b), order in sorted(fine.edges.items()):
            if group_of[a] != group_of[b]:
                label = next(label_iter)
                if rng.random() < 0.5:
                    ka, kb = "$", "$"
                elif rng.random() < 0.5:
                    ka, kb = ">", "<"
                else:
                    ka, kb = "<", ">"
                gdescs[a].append((ka, label, order))
                gdescs[b].append((kb, label, order))
        defs = []
        for gid, members in enumerate(coarse.members):
            sub_edges = {(a, b): o for (a, b), o in fine.edges.items()
                         if group_of[a] == gid and group_of[b] == gid}
            text, appearance = write_graph_text(rng, members, {x: "[#%s]" % fine.names[x] for x in members},
                                                sub_edges, gdescs, "cg")
            defs.append((coarse.names[gid], text))
            group_specs.append({"level": depth, "name": coarse.names[gid],
                                "members": [fine.names[x] for x in appearance],
                                "edges": sorted([fine.names[a], fine.names[b], o] for (a, b), o in sub_edges.items()),
                                "descs": {fine.names[x]: ["%s%s%d" % d for d in gdescs[x]] for x in members if gdescs.get(x)}})
        blocks.append(defs)
    blocks.append(leaf_defs)

    def block_text(defs, order=None):
        idx = list(range(len(defs))) if order is None else order
        return "{" + ",".join("#%s=%s" % defs[k] for k in idx) + "}"

    def graph_text(level):
        """Base graph text; a disconnected graph is written component by component, joined by '.', which the
        reader keeps as an edge of order 0 between the last node written and the first node of the next part."""
        nodes = list(range(len(level.names)))
        adjacency = defaultdict(set)
        for (a, b) in level.edges:
            adjacency[a].add(b)
            adjacency[b].add(a)
        seen = set()
        comps = []
        for start in nodes:
            if start in seen:
                continue
            comp = []
            stack = [start]
            seen.add(start)
            while stack:
                x = stack.pop()
                comp.append(x)
                for y in sorted(adjacency[x]):
                    if y not in seen:
                        seen.add(y)
                        stack.append(y)
            comps.append(sorted(comp))
        texts = []
        appearance = []
        zero_edges = []
        for comp in comps:
            sub_edges = {e: o for e, o in level.edges.items() if e[0] in comp}
            text, app = write_graph_text(rng, comp, {x: "[#%s]" % level.names[x] for x in comp},
                                         sub_edges, {}, "cg", allow_leading=False)
            if appearance:
                zero_edges.append([appearance[-1], app[0], 0])
            texts.append(text)
            appearance += app
        return "{" + ".".join(texts) + "}", appearance, zero_edges

    base_text, base_appearance, base_zero = graph_text(levels[0])
    flat_base_text, flat_appearance, flat_zero = graph_text(leaf)
    block_texts = [block_text(defs) for defs in blocks]
    perms = []
    for defs in blocks:
        order = list(range(len(defs)))
        rng.shuffle(order)
        perms.append(order)
    perm_texts = [block_text(defs, order) for defs, order in zip(blocks, perms)]
    last_all_atom = kind == "atomistic"
    item = {
        "family": "decomp",
        "kind": kind,
        "last_all_atom": last_all_atom,
        "n_levels": len(blocks),
        "base": base_text,
        "blocks": block_texts,
        "perm_blocks": perm_texts,
        "multi": ".".join([base_text] + block_texts),
        "flat": flat_base_text + "." + block_texts[-1],
        "composition": True,
        "shared_atoms": False,
        "explicit_h": any(a.get("el") == "H" for a in mol.atoms),
        "mol": {
            "atoms": [dict(a) for a in mol.atoms],
            "bonds": [[i, j, o] for (i, j), o in sorted(mol.bonds.items())],
            "hcount": expected_hcounts(mol),
            "leaf_of": [agroup[i] for i in range(len(mol.atoms))],
        },
        "levels": [{"names": lvl.names,
                    "edges": [[a, b, o] for (a, b), o in sorted(lvl.edges.items())],
                    "members": lvl.members} for lvl in levels],
        "base_appearance": base_appearance,
        "flat_appearance": flat_appearance,
        "base_zero_edges": base_zero,
        "flat_zero_edges": flat_zero,
        "components": components,
        "leaf_defs": [{"name": name, "text": text,
                       "atoms": leaf_appearance[lid],
                       "descs": {str(pos): ["%s%s%d" % d for d in descs[a]]
                                 for pos, a in enumerate(leaf_appearance[lid]) if descs.get(a)}}
                      for lid, (name, text) in enumerate(leaf_defs)],
        "group_specs": group_specs,
        "cuts": cut_info,
    }
    return item


# ---------------------------------------------------------------------------
# curated / repeated-unit items (history oracles only, no composition claim)
# ---------------------------------------------------------------------------

CURATED = [
    # (multi-level string, last_all_atom, shared_atoms)
    ("{[#OHter][#PEO]|2[#OHter]}.{#PEO=[$]COC[$],#OHter=[$]O}", True, False),
    ("{[#TC5]1[#TC5][#TC5]1}.{#TC5=[$]cc[$]}", True, False),
    ("{[#SC3]1[#TC5][#TC5]1}.{#SC3=Cc(c[!])c[!],#TC5=[!]ccc[!]}", True, True),
    ("{[#A]([#B])[#B]}.{#A=OC[!][!],#B=[!]CC}", True, True),
    ("{[#A][#B]}.{#A=OC[!],#B=[$][!]CC}", True, True),
    ("{[#Hter][#PS]|2[#Hter]}.{#PS=[$]CC[$]c1ccccc1,#Hter=[$][H]}", True, False),
    ("{[#A0][#B0]}.{#A0=[#A1a][#A1b][>],#B0=[<][#B1a][#B1b]}."
     "{#A1a=[<][#A2a]([#A2b][#A2c])[#A2d][>],#A1b=[<][#A2c][#A2d][>],"
     "#B1a=[<][#B2a][#B2b][>],#B1b=[<][#B2c][>]([#B2d]1[#B2e][#B2f]1)}", False, False),
    ("{[#B1][#B2][#B1]}.{#B1=[<][#PEO][#PEO][#PEO][>],#B2=[<][#PE][#PE][>]}.{#PEO=[>]COC[<],#PE=[>]CC[<]}", True, False),
    ("{[#PMA]([#PEO][#PEO][#OHter])|3}.{#PMA=[>]CC[<]C(=O)OC[$],#PEO=[$]COC[$],#OHter=[$]O}", True, False),
    ("{[#SP4]1[#SP4][#SP1r]1}.{#SP4=[OH;0.5]C[$]C[$]O,#SP1r=[$]OC[$]CO}", True, False),
    ("{[#A][#B][#C]}.{#A=O[>],#C=O[<],#B=[<]C[CH;x=R][>]C(=O)OC}", True, False),
    ("{[#A][#B]}.{#A=CC(/F)=[$],#B=[$]=C(/F)C}", True, False),
    # one large residue: two-letter elements at in-residue indices of 100 and more
    ("{[#A][#B]}.{#A=[$]" + "C(Cl)" * 104 + "C,#B=[$]CBr}", True, False),
    # the bare-H shorthand (rewritten to [H] with a warning), used by several fragments and several clients
    ("{[#Hter][#PE]([#PEO][#Hter])[#PE]([#PEO][#Hter])[#Hter]}.{#Hter=[$]H,#PE=[$]CC[$][$],#PEO=[$]COC[$]}", True, False),
    ("{[#Hter][#PS]|2[#Hter]}.{#PS=[$]CC[$]c1ccccc1,#Hter=[$]H}", True, False),
    # zero-order edges and a virtual node (kept last), with compatible descriptors left open across the '.' edge
    ("{[#A][#B].[#C]}.{#A=CC[$],#B=[$]C[$],#C=[$]CO}", True, False),
    ("{[#SP4]1.2[#SP4].3[#SP1r]1.[#TC4]23}.{#SP4=OC[$]C[$]O,#SP1r=[$]OC[$]CO}", True, False),
    ("{[#A].[#A][#B]}.{#A=[$]CC[$],#B=[$]O}", True, False),
    ("{[#A].[#VS]}.{#A=CCO}", True, False),
    ("{[#A][#B].[#VS]}.{#A=CC[$],#B=[$]O}", True, False),
    ("{[#A][#B]([#A]).[#VS]}.{#A=[$]C,#B=[$]N([$])[$]}", True, False),
    ("{[#X][#Y].[#Y]}.{#X=[>][#P1][#P2][<],#Y=[<][#Q1][#Q2][>]}", False, False),
    # shared beads (squash operator) at an intermediate level, followed by a further level
    ("{[#A0][#B0]}.{#A0=[#A1a][#A1b][!],#B0=[!][#A1b][#B1b]}.{#A1a=CC[$],#A1b=[$]CO[$],#B1b=[$]CN}", True, True),
    ("{[#A0][#B0][#C0]}.{#A0=[#P][#Q][!],#B0=[!][#Q][#R][!],#C0=[!][#R][#S]}.{#P=CC[$],#Q=[$]CO[$],#R=[$]CN[$],#S=[$]CCl}", True, True),
    ("{[#A0][#B0]}.{#A0=[#X1][#X2][!],#B0=[!][#X2][#X3]}.{#X1=[#a][#b][>],#X2=[<][#c][#d][>],#X3=[<][#e]}", False, True),
    ("{[#A0][#B0]}.{#A0=[>][#A1a][#A1b][!],#B0=[!][#A1b][#B1b][<]}.{#A1a=[$]CC,#A1b=[$]CO[$],#B1b=[$]CN}", True, True),
]

MONOMERS = [("PEO", "[>]COC[<]"), ("PE", "[>]CC[<]"), ("PS", "[>]CC[<]c1ccccc1"), ("PMA", "[>]CC[<]C(=O)OC"),
            ("PVA", "[>]CC[<]O"), ("PP", "[>]CC[<]C"), ("PAN", "[>]CC[<]C#N")]


def build_repeat_item(rng):
    monos = rng.sample(MONOMERS, k=rng.randint(1, 3))
    n_blocks = rng.randint(2, 4)
    block_defs = []
    seq = []
    for b in range(n_blocks):
        name, _ = rng.choice(monos)
        length = rng.choice([rng.randint(1, 4), rng.randint(1, 4), rng.randint(3, 7)])
        bname = "B%d" % (b + 1)
        block_defs.append((bname, "[<]" + "".join("[#%s]" % name for _ in range(length)) + "[>]"))
        seq.append(bname)
    order = [rng.randrange(n_blocks) for _ in range(rng.choice([rng.randint(2, 5), rng.randint(4, 7)]))]
    # now and then two consecutive blocks are joined by a zero-order edge: no bond may form across it
    if rng.random() < 0.4:
        # consecutive equal blocks written with the expansion operator
        parts = []
        pos = 0
        while pos < len(order):
            run = 1
            while pos + run < len(order) and order[pos + run] == order[pos]:
                run += 1
            parts.append("[#%s]%s" % (seq[order[pos]], "|%d" % run if run > 1 else ""))
            pos += run
        base = "{" + "".join(parts) + "}"
    else:
        base = "{" + "".join("[#%s]%s" % (seq[k], "." if (pos < len(order) - 1 and rng.random() < 0.15) else "")
                             for pos, k in enumerate(order)) + "}"
    b1 = "{" + ",".join("#%s=%s" % d for d in block_defs) + "}"
    b2 = "{" + ",".join("#%s=%s" % m for m in monos) + "}"
    perm1 = list(range(len(block_defs)))
    rng.shuffle(perm1)
    perm2 = list(range(len(monos)))
    rng.shuffle(perm2)
    return {
        "family": "repeat", "kind": "atomistic", "last_all_atom": True, "n_levels": 2,
        "base": base, "blocks": [b1, b2],
        "perm_blocks": ["{" + ",".join("#%s=%s" % block_defs[k] for k in perm1) + "}",
                        "{" + ",".join("#%s=%s" % monos[k] for k in perm2) + "}"],
        "multi": ".".join([base, b1, b2]), "flat": None, "composition": False, "shared_atoms": False,
    }


# curated multi-level strings with their flattened two-level form (multi-level vs flattened is judged)
CURATED_WITH_FLAT = [
    # the expansion operator at the end of an intermediate definition, as in the resolver's own docstring
    ("{[#B1]}.{#B1=[#PEO]|4}.{#PEO=[>]COC[<]}", "{[#PEO]|4}.{#PEO=[>]COC[<]}", True),
    ("{[#B1][#B2]}.{#B1=[<][#PEO]|3,#B2=[>][#PE]|12}.{#PEO=[>]COC[<],#PE=[>]CC[<]}",
     "{[#PEO]([#PEO][#PEO])[#PE]|12}.{#PEO=[>]COC[<],#PE=[>]CC[<]}", True),
    ("{[#Z][#W]}.{#Z=[#X][#Y][>],#W=[<][#V]}.{#X=[$][#a][#b]|5,#Y=[$][<][#c]|11,#V=[>][#v]|2}",
     "{[#X][#Y][#V]}.{#X=[$][#a][#b]|5,#Y=[$][<][#c]|11,#V=[>][#v]|2}", False),
    # two molecules in one system, several levels: the '.' sits between nodes of different next-level fragments
    ("{[#P].[#Q]}.{#P=[#a][#b],#Q=[#c][#d]}.{#a=CC[$],#b=[$]O,#c=NC[$],#d=[$]CF}", "{[#a][#b].[#c][#d]}.{#a=CC[$],#b=[$]O,#c=NC[$],#d=[$]CF}", True),
    ("{[#P][#R].[#Q]}.{#P=[#a][#b][>],#R=[<][#e],#Q=[#c]=[#d]}.{#a=[#a1][#a2][$],#b=[$][#b1][>],#e=[<][#e1],#c=[#c1][>],#d=[<][#d1][#d2]}",
     "{[#a][#b][#e].[#c]=[#d]}.{#a=[#a1][#a2][$],#b=[$][#b1][>],#e=[<][#e1],#c=[#c1][>],#d=[<][#d1][#d2]}", False),
    # intermediate definitions whose descriptors admit more than one pairing: the pairs are taken in the order the
    # descriptors and nodes are written, which makes the assignment unique (a bead with two kinds facing a bead that
    # offers both partners; a three-bead block facing a two-bead block)
    ("{[#K]([#L][#N])[#M]}.{#K=[>][$][#k],#L=[<][$][#l],#M=[$][#m],#N=[$][#n]}.{#k=[$x]C[$y],#l=[$x]N[$z],#m=[$y]CC,#n=[$z]O}",
     "{[#k]([#l][#n])[#m]}.{#k=[$x]C[$y],#l=[$x]N[$z],#m=[$y]CC,#n=[$z]O}", True),
    ("{[#K]([#L][#N])[#M]}.{#K=[>][$][#k],#L=[<][$][#l],#M=[$][#m],#N=[$][#n]}.{#k=[$x][#k1][#k2][$y],#l=[$x][#l1][$z],#m=[$y][#m1],#n=[$z][#n1][#n2]}",
     "{[#k]([#l][#n])[#m]}.{#k=[$x][#k1][#k2][$y],#l=[$x][#l1][$z],#m=[$y][#m1],#n=[$z][#n1][#n2]}", False),
    ("{[#U]([#V])[#T]}.{#U=[#p][>][#q][$][#r][$k],#V=[$][#c][#d][<],#T=[$][#t]}.{#p=[$pq]C[$pd],#q=[$pq]N([$qr])[$qt],#r=[$qr]O,#c=[$cd]S,#d=[$cd]C[$pd],#t=[$qt]F}",
     "{[#p]([#d][#c])[#q]([#t])[#r]}.{#p=[$pq]C[$pd],#q=[$pq]N([$qr])[$qt],#r=[$qr]O,#c=[$cd]S,#d=[$cd]C[$pd],#t=[$qt]F}", True),
    # an intermediate definition with a multiplier followed by a bead that carries the descriptor
    ("{[#A0][#B0]}.{#A0=[#P]|2[#Q][>],#B0=[<][#R]}.{#P=[$]CC[$],#Q=[$]CO[$a],#R=[$a]N}",
     "{[#P]|2[#Q][#R]}.{#P=[$]CC[$],#Q=[$]CO[$a],#R=[$a]N}", True),
    # ring label 0, and a ring label used again after its ring was closed, in intermediate definitions
    ("{[#A0][#B0]}.{#A0=[#P]0[#Q][#R]0[>],#B0=[<][#S]}.{#P=[$]C[$],#Q=[$]C[$],#R=[$]C([$])[$b],#S=[$b]O}",
     "{[#P]1[#Q][#R]1[#S]}.{#P=[$]C[$],#Q=[$]C[$],#R=[$]C([$])[$b],#S=[$b]O}", True),
    ("{[#A0]}.{#A0=[#P]0[#Q][#R]0[#S]0[#T][#U]0}.{#P=[$][#p][$],#Q=[$][#q][$],#R=[$][#r][$][$],#S=[$][#s][$][$],#T=[$][#t][$],#U=[$][#u][$]}",
     "{[#P]1[#Q][#R]1[#S]2[#T][#U]2}.{#P=[$][#p][$],#Q=[$][#q][$],#R=[$][#r][$][$],#S=[$][#s][$][$],#T=[$][#t][$],#U=[$][#u][$]}", False),
]


SQUASH_UNITS = ["[!]CC[!]", "[!]C[C;0.5][!]", "[!]COC[!]", "[!]C(C)C[!]", "[!]C[O;2.0]C[!]", "[!]CNC[!]", "[!]CC(=O)C[!]"]


def build_squash_item(rng):
    """Chains of units joined through shared atoms (squash operator), optionally below a grouping level."""
    units = rng.sample(SQUASH_UNITS, k=rng.choice([1, 2, 2, 3]))
    names = ["Q%d" % (k + 1) for k in range(len(units))]
    seq = [rng.randrange(len(units)) for _ in range(rng.randint(1, 5))]
    start = rng.choice(["C[C;0.5][!]", "OC[!]", "[N;2.0]C[!]", "CC[!]"])
    end = rng.choice(["[!]CC", "[!]C[O;0.1]", "[!]CCl"])
    chain = ["A"] + [names[k] for k in seq] + ["D"]
    defs = ["#A=" + start] + ["#%s=%s" % (names[k], units[k]) for k in range(len(units))] + ["#D=" + end]
    leaf_block = "{" + ",".join(defs) + "}"
    perm = list(defs)
    rng.shuffle(perm)
    if rng.random() < 0.4 and len(chain) >= 3:
        # a grouping level on top: the chain is cut into two groups joined by an ordinary descriptor pair
        cut = rng.randint(1, len(chain) - 1)
        g1 = "".join("[#%s]" % n for n in chain[:cut]) + "[$]"
        g2 = "[$]" + "".join("[#%s]" % n for n in chain[cut:])
        # the squash between the two beads next to the cut happens one level down: keep it inside one group
        base = "{[#G1][#G2]}"
        blocks = ["{#G1=%s,#G2=%s}" % (g1, g2), leaf_block]
        perms = ["{#G2=%s,#G1=%s}" % (g2, g1), "{" + ",".join(perm) + "}"]
    else:
        base = "{" + "".join("[#%s]" % n for n in chain) + "}"
        blocks = [leaf_block]
        perms = ["{" + ",".join(perm) + "}"]
    return {"family": "squash", "kind": "atomistic", "last_all_atom": True, "n_levels": len(blocks), "base": base, "blocks": blocks,
            "perm_blocks": perms, "multi": ".".join([base] + blocks), "flat": None, "composition": False, "shared_atoms": True}


def build_curated_item(rng):
    import re
    if rng.random() < 0.25:
        text, flat, last_all_atom = rng.choice(CURATED_WITH_FLAT)
        parts = re.findall(r"\{[^\}]+\}", text)
        return {"family": "curated", "kind": "atomistic" if last_all_atom else "coarse", "last_all_atom": last_all_atom,
                "n_levels": len(parts) - 1, "base": parts[0], "blocks": parts[1:], "perm_blocks": parts[1:],
                "multi": text, "flat": flat, "composition": True, "constructed": False, "shared_atoms": False}
    text, last_all_atom, shared = rng.choice(CURATED)
    parts = re.findall(r"\{[^\}]+\}", text)
    perm_blocks = []
    for block in parts[1:]:
        defs = block[1:-1].split(",")
        rng.shuffle(defs)
        perm_blocks.append("{" + ",".join(defs) + "}")
    return {
        "family": "curated", "kind": "atomistic" if last_all_atom else "coarse", "last_all_atom": last_all_atom,
        "n_levels": len(parts) - 1, "base": parts[0], "blocks": parts[1:], "perm_blocks": perm_blocks,
        "multi": text, "flat": None, "composition": False, "shared_atoms": shared,
    }
