"""
2D layout simulation (property C19).

`vespr_layout` is a randomised algorithm: its start configuration comes from
the numpy *global* generator (nx.fruchterman_reingold_layout without a seed).
The simulator owns that state: before a layout op it either sets the generator
from the run's PRNG or leaves it wherever the history of previous ops (other
layouts, foreign draws, reseeds) left it; state digests are logged so the run
replays. Workload: chains, stars, rings, fused rings, random trees with ring
closures, resolved molecules with hydrogens and ez_isomer annotations, several
bond-length settings and node relabellings.
"""
import copy
import math

from .core import H, rng_for, sha, jdump, HarnessError, raised_in_harness, apply_env, env_debug_logging
from . import gen_mol

EZ_STRINGS = [
    "{[#A][#B]}.{#A=CC(/F)=[$],#B=[$]=C(/F)C}",
    "{[#A][#B]}.{#A=CC(/F)=[$],#B=[$]=C(\\F)C}",
    "{[#A][#B]}.{#A=C\\C=C/[$],#B=[$]/C=C/C}",
    "{[#A]}.{#A=F/C=C/F}",
    "{[#A]}.{#A=F/C=C\\F}",
    "{[#A][#B]}.{#A=CC(/Cl)=C(\\F)C[$],#B=[$]CC}",
    # stereo double bonds inside rings (the cis/trans correction then works on a ring bond)
    "{[#A]}.{#A=C1CCC/C=C\\CC1}",
    "{[#A]}.{#A=C1CC/C=C\\C1}",
    "{[#A]}.{#A=C1CCCCC/C=C/CCC1}",
    "{[#A][#B]}.{#A=C1CCC/C=C\\CC1[$],#B=[$]CC}",
]
CG_STRINGS = [
    "{[#A][#B].[#C][#D]}",
    "{[#A].[#B]}",
    "{[#PMA]([#PEO][#PEO][#OHter])|3}",
    "{[#A]1[#B][#C]1.[#D]=[#E]}",
    "{[#SP4]1.2[#SP4].3[#SP1r]1.[#TC4]23}",
    "{[#A]=[#B]#[#C]$[#D]}",
]
# a 300-atom chain (rare: the layout needs several seconds)
BIG_STRINGS = ["{[#H][#PE]|50[#H]}.{#PE=[$]CC[$],#H=[$][H]}", "{[#A][#PEO]|34[#A]}.{#PEO=[$]COC[$],#A=[$]C}"]
MOL_STRINGS = [
    "{[#OHter][#PEO]|2[#OHter]}.{#PEO=[$]COC[$],#OHter=[$]O}",
    "{[#TC5]1[#TC5][#TC5]1}.{#TC5=[$]cc[$]}",
    "{[#Hter][#PS]|2[#Hter]}.{#PS=[$]CC[$]c1ccccc1,#Hter=[$][H]}",
    "{[#A]}.{#A=CCO}",
    # one heavy atom and its hydrogens
    "{[#A]}.{#A=C}",
    "{[#A]}.{#A=O}",
    "{[#A]}.{#A=N}",
    "{[#A]}.{#A=Cl}",
    "{[#A][#B]}.{#A=[$]C,#B=[$][H]}",
]


def _shape(rng):
    kind = rng.choice(["chain", "star", "ring", "fused", "tree", "tree", "single_bond", "ladder", "nonplanar"])
    edges = []
    if kind == "nonplanar":
        # elastic networks and cage-like beads: connected graphs that cannot be drawn without crossings
        sub = rng.choice(["complete", "bipartite", "petersen", "dense"])
        if sub == "complete":
            n = rng.randint(5, 8)
            edges = [(i, j) for i in range(n) for j in range(i + 1, n)]
        elif sub == "bipartite":
            a, b = rng.choice([(3, 3), (3, 4), (4, 4)])
            n = a + b
            edges = [(i, a + j) for i in range(a) for j in range(b)]
        elif sub == "petersen":
            n = 10
            edges = [(i, (i + 1) % 5) for i in range(5)] + [(i, i + 5) for i in range(5)] + [(5 + i, 5 + (i + 2) % 5) for i in range(5)]
        else:
            n = rng.randint(6, 14)
            edges = [(rng.randrange(i), i) for i in range(1, n)] + [(i, j) for i in range(n) for j in range(i + 1, n) if rng.random() < 0.45]
    elif kind == "single_bond":
        n = 2
        edges = [(0, 1)]
    elif kind == "chain":
        n = rng.randint(2, 30)
        edges = [(i, i + 1) for i in range(n - 1)]
    elif kind == "star":
        n = rng.choice([rng.randint(3, 9), rng.randint(10, 24)])
        edges = [(0, i) for i in range(1, n)]
    elif kind == "ring":
        n = rng.randint(3, 12)
        edges = [(i, (i + 1) % n) for i in range(n)]
    elif kind == "fused":
        a = rng.randint(4, 7)
        b = rng.randint(4, 7)
        edges = [(i, (i + 1) % a) for i in range(a)]
        nxt = a
        chain = [0] + list(range(nxt, nxt + b - 2)) + [1]
        for u, v in zip(chain, chain[1:]):
            edges.append((u, v))
        n = a + b - 2
        if rng.random() < 0.5:
            for k in range(rng.randint(1, 4)):
                edges.append((rng.randrange(n), n))
                n += 1
    elif kind == "ladder":
        m = rng.randint(2, 8)
        n = 2 * m
        edges = [(i, i + 1) for i in range(m - 1)] + [(m + i, m + i + 1) for i in range(m - 1)] + [(i, m + i) for i in range(m)]
    else:
        n = rng.randint(3, 45)
        edges = [(rng.randrange(i), i) for i in range(1, n)]
        for _ in range(rng.choice([0, 0, 1, 2, 3])):
            u, v = rng.randrange(n), rng.randrange(n)
            if u != v and (min(u, v), max(u, v)) not in {(min(a, b), max(a, b)) for a, b in edges}:
                edges.append((u, v))
    return kind, n, sorted({(min(a, b), max(a, b)) for a, b in edges})


def _source(rng):
    roll = rng.random()
    if roll < 0.55:
        kind, n, edges = _shape(rng)
        source = {"type": "shape", "kind": kind, "n": n, "edges": [list(e) for e in edges],
                  "edge_weights": [rng.choice([0.5, 1.0, 2.0, 0.0, 7.5]) for _ in edges] if rng.random() < 0.2 else None,
                  "orders": [rng.choice([1, 1, 1, 2, 3, 1, 1, 0, 1.5]) for _ in edges]}
    elif roll < 0.62:
        # coarse graphs as the reader returns them, incl. zero-order ('.') edges
        source = {"type": "cg", "kind": "cgsmiles", "string": rng.choice(CG_STRINGS)}
    elif roll < 0.80:
        item = gen_mol.build_item(rng, kind="atomistic", size=rng.randint(2, 14), mid_levels=rng.choice([0, 1]))
        source = {"type": "resolved", "kind": "decomp", "string": item["multi"], "last_all_atom": True}
    elif roll < 0.90:
        source = {"type": "resolved", "kind": "ez", "string": rng.choice(EZ_STRINGS), "last_all_atom": True}
    elif roll < 0.992:
        source = {"type": "resolved", "kind": "curated", "string": rng.choice(MOL_STRINGS), "last_all_atom": True}
    else:
        source = {"type": "resolved", "kind": "big", "string": rng.choice(BIG_STRINGS), "last_all_atom": True}
    if rng.random() < 0.1:
        # the molecule carries 3D coordinates from elsewhere (an extra node attribute the layout must not depend on):
        # standard orientation along z, or a planar molecule in the xz plane
        source["positions"] = rng.choice(["along_z", "xz_plane", "random3d"])
    return source


def generate(run_seed, prop, tier="quick"):
    rng = rng_for("layout-scenario", run_seed)
    sources = [_source(rng)]
    while len(sources) < 3 and rng.random() < 0.35:
        sources.append(_source(rng))        # several molecules drawn one after the other in one process
    ops = []
    for _ in range(rng.randint(1, 4)):
        roll = rng.random()
        if roll < 0.7 or not ops:
            ops.append({"op": "layout", "g": rng.randrange(len(sources)), "bond": rng.choice([1, 1, 0.35, 2.5, 1.54, 10.0, 0.01, 1e-4, 750.0, 3, 1.5e-10, 1e-8, 1e6,
                                                           {"np": "float32", "v": 1.5}, {"np": "float16", "v": 0.35}, {"np": "float32", "v": 0.1}, {"np": "int64", "v": 2}]),
                        "np_seed": rng.randrange(2 ** 32) if rng.random() < 0.65 else None,
                        "relabel": rng.choice(["none", "none", "shuffle", "strings", "offset", "mixed"]),
                        "relabel_seed": rng.randrange(2 ** 30),
                        "align": rng.choice([None, None, None, [1.0, 0.0], [0.0, 1.0], [1.0, 1.0], [1, 1], [4, 3], [-2, 1], [0, 1], [0.3, -2.5]]),
                        # the kind of graph object handed in: a plain graph, a frozen one, a read-only view
                        "form": rng.choice(["plain", "plain", "plain", "plain", "frozen", "view"])})
        elif roll < 0.76:
            # an interrupted call of a layout function earlier in the process: vespr_layout itself cut short, or the
            # refined layout (same module) cut short / failing on a graph without bond orders
            ops.append({"op": "aborted_call", "g": rng.randrange(len(sources)), "which": rng.choice(["layout", "refined", "refined_orderless"]),
                        "abort_at": rng.choice([1, 2, 3, 5, 8, 13, 21, 34, 55, 89, 144, 233, 400, 900]), "np_seed": rng.randrange(2 ** 32)})
        elif roll < 0.80:
            ops.append({"op": "foreign_rng", "seed": rng.randrange(2 ** 32), "draws": rng.randint(0, 7)})
        elif roll < 0.88:
            # the caller edits the same graph object in place between two layouts
            ops.append({"op": "mutate_graph", "g": rng.randrange(len(sources)), "how": rng.choice(["rewire", "rewire", "relabel_inplace"]), "seed": rng.randrange(2 ** 30)})
        else:
            ops.append({"op": "relabel_pair", "g": rng.randrange(len(sources)), "bond": rng.choice([1, 0.35, 2.5]), "np_seed": rng.randrange(2 ** 32),
                        "relabel": rng.choice(["shuffle", "strings", "offset", "mixed"]), "relabel_seed": rng.randrange(2 ** 30)})
    if rng.random() < 0.2:
        # the caller keeps the bond length in ONE mutable numpy object and passes it to every layout call
        shared = rng.choice([1.5, 0.35, 2.0])
        for op in ops:
            if op["op"] == "layout":
                op["bond"] = {"shared": shared, "form": rng.choice(["0d", "1elem"]) if False else "0d"}
        if sum(1 for o in ops if o["op"] == "layout") < 2:
            ops.append({"op": "layout", "g": rng.randrange(len(sources)), "bond": {"shared": shared, "form": "0d"},
                        "np_seed": rng.randrange(2 ** 32), "relabel": "none", "relabel_seed": 0, "align": None})
    if len(sources) > 1:
        # make sure every molecule is laid out at least once, the later ones after the earlier ones
        for g in range(len(sources)):
            if not any(o.get("g") == g and o["op"] == "layout" for o in ops):
                ops.append({"op": "layout", "g": g, "bond": rng.choice([1, 1.5, 0.35]), "np_seed": rng.randrange(2 ** 32),
                            "relabel": "none", "relabel_seed": 0, "align": None})
    if any(o["op"] == "aborted_call" for o in ops) and ops[-1]["op"] != "layout":
        ops.append({"op": "layout", "g": rng.randrange(len(sources)), "bond": rng.choice([1, 1.5, 0.35]), "np_seed": rng.randrange(2 ** 32),
                    "relabel": "none", "relabel_seed": 0, "align": None})
    # the logging configuration of the process is part of the environment
    return {"family": "layout", "prop": prop, "run_seed": run_seed, "sources": sources, "ops": ops,
            "debug_logging": env_debug_logging(run_seed),
            # numpy's floating-point error handling and the warning filter are process-wide settings too
            "np_errstate_raise": H("env-np-errstate", run_seed) % 8 == 0, "warnings_as_errors": H("env-warnings", run_seed) % 8 == 0}


def _relabel(graph, how, seed):
    """Relabel nodes (and node references inside ez_isomer annotations)."""
    import random
    import networkx as nx
    if how == "none":
        return graph, {n: n for n in graph.nodes}
    rng = random.Random(seed)
    nodes = list(graph.nodes)
    if how == "shuffle":
        keys = list(nodes)
        rng.shuffle(keys)
        mapping = dict(zip(nodes, keys))
    elif how == "offset":
        mapping = {n: 5 * k + 11 for k, n in enumerate(nodes)}
    elif how == "mixed":
        # labels of several types in one graph: no total order among them
        kinds = [lambda k: 2 * k, lambda k: "n%03d" % k, lambda k: (k, "x"), lambda k: frozenset((k, k + 1000))]
        picks = [rng.randrange(4) for _ in nodes]
        mapping = {n: kinds[picks[k]](k) for k, n in enumerate(nodes)}
    else:
        names = ["n%03d" % k for k in range(len(nodes))]
        rng.shuffle(names)
        mapping = dict(zip(nodes, names))
    order = list(nodes)
    rng.shuffle(order)
    out = nx.Graph()
    for node in order:
        data = copy.deepcopy(graph.nodes[node])
        if "ez_isomer" in data:
            data["ez_isomer"] = [tuple(mapping[x] if x in mapping else x for x in item[:4]) + tuple(item[4:]) for item in data["ez_isomer"]]
        out.add_node(mapping[node], **data)
    for u, v, data in graph.edges(data=True):
        out.add_edge(mapping[u], mapping[v], **copy.deepcopy(data))
    return out, mapping


def _check(graph, pos, bond, seq, violations, label, edges=None):
    import numpy as np
    edges = list(graph.edges) if edges is None else edges
    if set(pos) != set(graph.nodes) or len(pos) != len(graph):
        violations.append({"oracle": "C19.positions", "event": seq,
                           "detail": "%s: layout returned %d positions for %d nodes" % (label, len(pos), len(graph))})
        return None
    for node, p in pos.items():
        arr = np.asarray(p, dtype=float)
        if arr.shape != (2,) or not np.all(np.isfinite(arr)):
            violations.append({"oracle": "C19.positions", "event": seq,
                               "detail": "%s: node %r has position %r (not a finite 2-vector)" % (label, node, p)})
            return None
    dists = []
    for u, v in edges:
        d = float(np.linalg.norm(np.asarray(pos[u], dtype=float) - np.asarray(pos[v], dtype=float)))
        dists.append(d)
        if d <= 1e-6 * bond:
            violations.append({"oracle": "C19.coincide", "event": seq,
                               "detail": "%s: bonded nodes %r and %r coincide (distance %.3g, bond length %g)" % (label, u, v, d, bond)})
            return None
    mean = sum(dists) / len(dists)
    if abs(mean - bond) > 1e-9 * bond:
        violations.append({"oracle": "C19.scale", "event": seq,
                           "detail": "%s: mean bond length %.9g, requested %g" % (label, mean, bond)})
    return mean


def run_history(scenario):
    import numpy as np
    import random as stdlib_random
    import networkx as nx
    from cgsmiles.graph_layout import vespr_layout
    sc = scenario
    stdlib_random.seed(H("global-random", sc["run_seed"]))
    np.random.seed(H("global-numpy", sc["run_seed"]) % 2 ** 32)
    violations = []
    stats = {}
    events = []
    apply_env(sc, stats)

    def build(src):
        if src["type"] == "shape":
            g = nx.Graph()
            g.add_nodes_from(range(src["n"]))
            weights = src.get("edge_weights") or [None] * len(src["edges"])
            for (u, v), order, weight in zip(src["edges"], src["orders"], weights):
                g.add_edge(u, v, order=order)
                if weight is not None:
                    g.edges[u, v]["weight"] = weight
            return g
        if src["type"] == "cg":
            from cgsmiles.read_cgsmiles import read_cgsmiles
            return read_cgsmiles(src["string"])
        from cgsmiles.resolve import MoleculeResolver
        return MoleculeResolver.from_string(src["string"], last_all_atom=src["last_all_atom"]).resolve_all()[1]

    graphs = []
    for src in sc["sources"]:
        try:
            g = build(src)
        except Exception as exc:  # noqa
            return {"rejected": "resolve raised %s" % type(exc).__name__, "events": [], "violations": [], "stats": {}}
        if not nx.is_connected(g) or g.number_of_edges() == 0:
            return {"rejected": "graph not connected or without bond", "events": [], "violations": [], "stats": {}}
        if src.get("positions"):
            import random as _r
            prng = _r.Random(H("positions", sc["run_seed"], len(graphs)))
            for k, n in enumerate(g.nodes):
                if src["positions"] == "along_z":
                    g.nodes[n]["position"] = np.array([0.0, 0.0, 1.2 * k])
                elif src["positions"] == "xz_plane":
                    g.nodes[n]["position"] = np.array([prng.uniform(-5, 5), 0.0, prng.uniform(-5, 5)])
                else:
                    g.nodes[n]["position"] = np.array([prng.uniform(-5, 5) for _ in range(3)])
            stats["graphs_with_3d_positions"] = stats.get("graphs_with_3d_positions", 0) + 1
        graphs.append(g)
        stats["nodes"] = stats.get("nodes", 0) + len(g)
        stats["has_ez"] = stats.get("has_ez", 0) + int(any("ez_isomer" in g.nodes[n] for n in g.nodes))

    if sc.get("np_errstate_raise"):
        np.seterr(all="raise")
        stats["env:numpy-errors-raise"] = 1
    if sc.get("warnings_as_errors"):
        import warnings
        warnings.simplefilter("error")
        stats["env:warnings-as-errors"] = 1
    shared_objects = {}

    def bond_value(value):
        if isinstance(value, dict) and "shared" in value:
            if "obj" not in shared_objects:
                shared_objects["obj"] = np.array(float(value["shared"]))     # one 0-d array for the whole history
            return shared_objects["obj"]
        if isinstance(value, dict) and "np" in value:
            return getattr(np, value["np"])(value["v"])
        return value

    def requested(value):
        """The bond length the caller asked for, as a plain float (never read back from a mutable object)."""
        if isinstance(value, dict) and "shared" in value:
            return float(value["shared"])
        if isinstance(value, dict) and "np" in value:
            return float(getattr(np, value["np"])(value["v"]))
        return float(value)

    def state_digest():
        return sha(repr(np.random.get_state()[1][:8].tolist()) + str(np.random.get_state()[2]))

    for seq, op in enumerate(sc["ops"]):
        event = {"seq": seq, "op": op["op"]}
        graph = graphs[op.get("g", 0) % len(graphs)]
        try:
            if op["op"] == "foreign_rng":
                np.random.seed(op["seed"])
                for _ in range(op["draws"]):
                    np.random.rand(3)
                event["out"] = "ok"
            elif op["op"] == "layout":
                work, mapping = _relabel(graph, op["relabel"], op["relabel_seed"])
                if op["np_seed"] is not None:
                    np.random.seed(op["np_seed"])
                event["state"] = state_digest()
                bond = bond_value(op["bond"])
                kwargs = {"default_bond": bond}
                if op.get("align"):
                    kwargs["align_with"] = np.array(op["align"])
                form = op.get("form", "plain")
                if form == "frozen":
                    work = nx.freeze(work.copy())
                elif form == "view":
                    holder = work.copy()
                    work = holder.subgraph(list(holder.nodes))
                if form != "plain":
                    stats["graph-form:" + form] = stats.get("graph-form:" + form, 0) + 1
                edges_before = list(work.edges)
                pos = vespr_layout(work, **kwargs)
                _check(work, pos, requested(op["bond"]), seq, violations, "layout(relabel=%s, %s graph)" % (op["relabel"], form), edges=edges_before)
                event["out"] = "ok"
                event["dig"] = sha(jdump(sorted([repr(k), [round(float(x), 6) for x in np.asarray(v, dtype=float)]] for k, v in pos.items())))
                stats["layouts"] = stats.get("layouts", 0) + 1
            elif op["op"] == "aborted_call":
                from .seams import AbortInjector, SimInterrupt
                from cgsmiles.graph_layout import vespr_refined_layout
                np.random.seed(op["np_seed"])
                victim = graph.copy()
                if op["which"] == "refined_orderless":
                    for u, v in victim.edges:
                        victim.edges[u, v].pop("order", None)
                try:
                    with AbortInjector(op["abort_at"] if op["which"] != "refined_orderless" else 0) as inj:
                        if op["which"] == "layout":
                            vespr_layout(victim, default_bond=1.0)
                        else:
                            vespr_refined_layout(victim)
                    event["out"] = "completed"
                except SimInterrupt:
                    event["out"] = "interrupted"
                    stats["fault:layout-call-interrupted:fired"] = stats.get("fault:layout-call-interrupted:fired", 0) + 1
                except Exception as exc:  # noqa  (a foreign call: its own outcome is not judged)
                    if raised_in_harness(exc):
                        raise
                    event["out"] = "failed:%s" % type(exc).__name__
                    stats["fault:foreign-layout-call-failed:fired"] = stats.get("fault:foreign-layout-call-failed:fired", 0) + 1
            elif op["op"] == "mutate_graph":
                import random
                mrng = random.Random(op["seed"])
                has_ez = any("ez_isomer" in graph.nodes[n] for n in graph.nodes)
                if op["how"] == "rewire" and not has_ez and len(graph) >= 4:
                    leaves = [n for n in graph.nodes if graph.degree(n) == 1]
                    if leaves:
                        leaf = mrng.choice(sorted(leaves, key=repr))
                        old = next(iter(graph[leaf]))
                        others = [n for n in sorted(graph.nodes, key=repr) if n not in (leaf, old)]
                        new = mrng.choice(others)
                        data = dict(graph.edges[leaf, old])
                        graph.remove_edge(leaf, old)
                        graph.add_edge(leaf, new, **data)
                        stats["fault:graph-edited-between-layouts:fired"] = stats.get("fault:graph-edited-between-layouts:fired", 0) + 1
                elif op["how"] == "relabel_inplace" and not has_ez and all(isinstance(n, int) for n in graph.nodes):
                    shift = max(graph.nodes) + 1 + mrng.randrange(5)
                    nx.relabel_nodes(graph, {n: n + shift for n in list(graph.nodes)}, copy=False)
                    stats["fault:graph-edited-between-layouts:fired"] = stats.get("fault:graph-edited-between-layouts:fired", 0) + 1
                event["out"] = "ok"
            elif op["op"] == "relabel_pair":
                # same generator state, two labellings: the three facts must hold for both
                for variant in ("none", op["relabel"]):
                    work, mapping = _relabel(graph, variant, op["relabel_seed"])
                    np.random.seed(op["np_seed"])
                    edges_before = list(work.edges)
                    pos = vespr_layout(work, default_bond=op["bond"])
                    _check(work, pos, float(op["bond"]), seq, violations, "relabel pair / %s" % variant, edges=edges_before)
                    stats["layouts"] = stats.get("layouts", 0) + 1
                event["out"] = "ok"
            else:
                raise HarnessError("unknown op %r" % op["op"])
        except HarnessError:
            raise
        except Exception as exc:  # noqa
            if raised_in_harness(exc):
                raise HarnessError("harness bug in op %s: %s: %s" % (op["op"], type(exc).__name__, exc))
            event["out"] = "exc:%s: %s" % (type(exc).__name__, str(exc)[:100])
            if op["op"] not in ("foreign_rng", "aborted_call"):
                violations.append({"oracle": "C19.positions", "event": seq,
                                   "detail": "vespr_layout raised %s: %s on a connected graph with %d nodes and %d bonds"
                                             % (type(exc).__name__, str(exc)[:100], len(graph), graph.number_of_edges())})
        events.append(event)
    return {"events": events, "violations": violations, "stats": stats}


def execute(scenario):
    from .procs import fork_call
    sc = scenario
    result = {"status": "ok", "violations": [], "stats": {}}
    sim = fork_call(run_history, (sc,), timeout=600)
    if sim.get("rejected"):
        result["status"] = "rejected"
        result["reject_reasons"] = [sim["rejected"]]
        return result
    for viol in sim["violations"]:
        result["violations"].append(dict(viol, where="simulated history"))
    stats = result["stats"]
    stats.update(sim["stats"])
    for ev in sim["events"]:
        stats["op:" + ev["op"]] = stats.get("op:" + ev["op"], 0) + 1
        if ev["op"] == "foreign_rng":
            stats["fault:foreign-rng:fired"] = stats.get("fault:foreign-rng:fired", 0) + 1
        if ev["op"] == "layout" and sc["ops"][ev["seq"]].get("np_seed") is None:
            stats["fault:inherited-rng-state:fired"] = stats.get("fault:inherited-rng-state:fired", 0) + 1
    for src in sc["sources"]:
        stats["kind:" + str(src.get("kind"))] = stats.get("kind:" + str(src.get("kind")), 0) + 1
    stats["graphs_in_history:%d" % len(sc["sources"])] = 1
    stats["states"] = sorted({ev["state"] for ev in sim["events"] if ev.get("state")})
    stats["case"] = sha(jdump([src.get("string") or [src["edges"], src["orders"]] for src in sc["sources"]]))
    result["digest"] = sha(jdump([[e.get(k) for k in ("seq", "op", "out", "dig", "state")] for e in sim["events"]]))
    result["nontrivial"] = sim["stats"].get("nodes", 0) >= 3
    result["sample"] = {"sources": [{k: v for k, v in src.items() if k not in ("orders", "edge_weights")} for src in sc["sources"]], "ops": sc["ops"],
                        "outcomes": [e.get("out") for e in sim["events"]]}
    return result


def shrink_candidates(scenario):
    sc = scenario
    for k in range(len(sc["ops"])):
        if len(sc["ops"]) > 1:
            new = copy.deepcopy(sc)
            del new["ops"][k]
            yield new
    for k, op in enumerate(sc["ops"]):
        if op.get("relabel", "none") != "none" and op["op"] == "layout":
            new = copy.deepcopy(sc)
            new["ops"][k]["relabel"] = "none"
            yield new
        if op.get("align"):
            new = copy.deepcopy(sc)
            new["ops"][k]["align"] = None
            yield new
    if len(sc["sources"]) > 1:
        for keep in range(len(sc["sources"])):
            new = copy.deepcopy(sc)
            new["sources"] = [new["sources"][keep]]
            for op in new["ops"]:
                if "g" in op:
                    op["g"] = 0
            yield new
    for idx, src in enumerate(sc["sources"]):
        if src["type"] == "shape" and len(src["edges"]) > 1:
            deg = {}
            for u, v in src["edges"]:
                deg[u] = deg.get(u, 0) + 1
                deg[v] = deg.get(v, 0) + 1
            weights = src.get("edge_weights") or [None] * len(src["edges"])
            for leaf in sorted(n for n, d in deg.items() if d == 1)[:6]:
                keep = [(e, o, w) for e, o, w in zip(src["edges"], src["orders"], weights) if leaf not in e]
                nodes = sorted({x for e, _, _ in keep for x in e})
                remap = {n: k for k, n in enumerate(nodes)}
                new = copy.deepcopy(sc)
                new["sources"][idx]["n"] = len(nodes)
                new["sources"][idx]["edges"] = [[remap[e[0]], remap[e[1]]] for e, _, _ in keep]
                new["sources"][idx]["orders"] = [o for _, o, _ in keep]
                new["sources"][idx]["edge_weights"] = [w for _, _, w in keep] if src.get("edge_weights") else None
                yield new
