"""
Core helpers of the simulator: seed derivation, canonical dumps, digests.

Nothing in here imports cgsmiles; everything is a pure function of its
arguments so that a run is a pure function of (run_seed, code under test).
"""
import hashlib
import json
import random

try:  # numpy is only needed to canonicalise values coming out of cgsmiles
    import numpy as _np
except Exception:  # pragma: no cover
    _np = None

try:
    import networkx as _nx
except Exception:  # pragma: no cover
    _nx = None


class HarnessError(Exception):
    """Something in the harness (not in the code under test) went wrong."""


def H(*parts):
    """Stable 63-bit integer from arbitrary printable parts."""
    text = "\x1f".join(repr(p) for p in parts).encode()
    return int.from_bytes(hashlib.sha256(text).digest()[:8], "big") >> 1


def rng_for(*parts):
    """A private PRNG keyed by the parts; never the global one."""
    return random.Random(H(*parts))


def sha(text):
    if not isinstance(text, bytes):
        text = text.encode()
    return hashlib.sha256(text).hexdigest()[:20]


def _sort_key(value):
    return (type(value).__name__, repr(value) if not isinstance(value, (int, float, str)) else value)


def node_sort_key(node):
    if isinstance(node, bool):
        return ("bool", int(node), "")
    if isinstance(node, int):
        return ("int", node, "")
    if isinstance(node, float):
        return ("float", node, "")
    return (type(node).__name__, 0, str(node))


def canon(obj):
    """
    Canonical JSON-able form. A function of content only: never of object
    identity, dict/set iteration order or node insertion order.
    """
    if obj is None or isinstance(obj, (bool, str)):
        return obj
    if isinstance(obj, int):
        return obj
    if isinstance(obj, float):
        return {"f": repr(obj)}
    if _np is not None:
        if isinstance(obj, _np.bool_):
            return bool(obj)
        if isinstance(obj, _np.integer):
            return int(obj)
        if isinstance(obj, _np.floating):
            return {"f": repr(float(obj))}
        if isinstance(obj, _np.ndarray):
            return {"nd": [canon(x) for x in obj.tolist()]}
    if _nx is not None and isinstance(obj, _nx.Graph):
        return canon_graph(obj)
    if isinstance(obj, dict):
        items = [(canon(k), canon(v)) for k, v in obj.items()]
        items.sort(key=lambda kv: json.dumps(kv[0], sort_keys=True))
        return {"d": [[k, v] for k, v in items]}
    if isinstance(obj, (list, tuple)):
        return {"l" if isinstance(obj, list) else "t": [canon(x) for x in obj]}
    if isinstance(obj, (set, frozenset)):
        vals = [canon(x) for x in obj]
        vals.sort(key=lambda v: json.dumps(v, sort_keys=True))
        return {"s": vals}
    return {"o": type(obj).__name__ + ":" + repr(obj)[:80]}


def canon_graph(graph):
    nodes = sorted(graph.nodes, key=node_sort_key)
    out_nodes = []
    for node in nodes:
        attrs = graph.nodes[node]
        out_nodes.append([canon(node), canon(dict(attrs))])
    out_edges = []
    for u, v, data in graph.edges(data=True):
        a, b = sorted((u, v), key=node_sort_key)
        # edge attributes (including the stored 'bonding' pair) are content
        out_edges.append([canon(a), canon(b), canon(dict(data))])
    out_edges.sort(key=lambda e: json.dumps(e[:2], sort_keys=True))
    return {"g": {"n": out_nodes, "e": out_edges}}


def dumps(obj):
    return json.dumps(canon(obj), sort_keys=True, separators=(",", ":"))


def digest(obj):
    return sha(dumps(obj))


def iteration_order(graph):
    return [canon(n) for n in graph.nodes]


def jdump(obj):
    return json.dumps(obj, sort_keys=True, separators=(",", ":"))


# seam methods that only pass a call through to the real engine / stdlib: an exception raised below them
# (e.g. inside RDKit's C++ code) belongs to the system under test, not to the harness
SEAM_PASSTHROUGH = {"EmbedMolecule", "UFFOptimizeMolecule", "__getattr__", "choices", "choice", "wrapped"}


def raised_in_harness(exc):
    """True if the exception was raised by harness code (innermost frame under /verif/sim, seam pass-through
    methods aside), i.e. it is a bug of the simulator and must never be recorded as an outcome of the code
    under test."""
    import os
    import traceback
    here = os.path.dirname(os.path.abspath(__file__))
    frames = traceback.extract_tb(exc.__traceback__)
    while frames and os.path.abspath(frames[-1].filename).startswith(here) and frames[-1].name in SEAM_PASSTHROUGH:
        frames = frames[:-1]
    if not frames:
        return False
    if not os.path.abspath(frames[-1].filename).startswith(here):
        return False
    # innermost remaining frame is harness code: a seam that forwarded the call appears *above* library frames,
    # so reaching here means the harness itself raised
    return len(frames) == len(traceback.extract_tb(exc.__traceback__))


def env_debug_logging(run_seed):
    """Environment dimension: one history in eight runs in a process whose logging is configured at DEBUG level
    (a pure function of the run seed; stored in the scenario so that replay files carry it)."""
    return H("env-debug-logging", run_seed) % 8 == 0


def apply_env(scenario, stats=None):
    """Called inside the fork of a simulated history (never in a pristine reference)."""
    if scenario.get("debug_logging"):
        import logging
        import os
        logging.basicConfig(level=logging.DEBUG, stream=open(os.devnull, "w"), force=True)
        if stats is not None:
            stats["env:debug-logging"] = 1
