"""
Admission self-check for generated items (DESIGN 4/C06).

Each piece of an item is read on its own with the repository's readers and
compared with what the generator meant. Items that fail are dropped and
counted: reader/tokenizer questions belong to C04/C13 (not applicable to this
technique) and must not surface as alarms of C06/C12.

Must be called inside a fork (it calls the code under test).
"""
import cgsmiles
from cgsmiles.read_cgsmiles import read_cgsmiles
from cgsmiles.read_fragments import read_fragments


def _norm(order):
    value = float(order)
    return int(value) if value == int(value) else value


def _check_base(text, level, appearance, zero_edges=()):
    graph = read_cgsmiles(text)
    names = [graph.nodes[n].get("fragname") for n in sorted(graph.nodes)]
    want = [level["names"][x] for x in appearance]
    if names != want:
        return "base names %r != %r" % (names, want)
    pos = {x: k for k, x in enumerate(appearance)}
    want_edges = sorted((min(pos[a], pos[b]), max(pos[a], pos[b]), _norm(o)) for a, b, o in list(level["edges"]) + list(zero_edges))
    got_edges = sorted((min(u, v), max(u, v), _norm(o)) for u, v, o in graph.edges(data="order"))
    if want_edges != got_edges:
        return "base edges %r != %r" % (got_edges, want_edges)
    return None


def admit(item):
    """Returns None if the item is admitted, else a reason string."""
    if item.get("family") != "decomp":
        return None
    try:
        levels = item["levels"]
        reason = _check_base(item["base"], levels[0], item["base_appearance"], item.get("base_zero_edges", ()))
        if reason:
            return reason
        flat_base = item["flat"].split(".{")[0]
        reason = _check_base(flat_base, levels[-1], item["flat_appearance"], item.get("flat_zero_edges", ()))
        if reason:
            return "flat " + reason
        # group definitions
        specs_by_level = {}
        for spec in item["group_specs"]:
            specs_by_level.setdefault(spec["level"], []).append(spec)
        for depth, block in enumerate(item["blocks"][:-1]):
            frags = read_fragments(block, all_atom=False)
            for spec in specs_by_level.get(depth, []):
                graph = frags.get(spec["name"])
                if graph is None:
                    return "group %s missing" % spec["name"]
                names = [graph.nodes[n].get("atomname") for n in sorted(graph.nodes)]
                if names != spec["members"]:
                    return "group %s members %r != %r" % (spec["name"], names, spec["members"])
                got = sorted(sorted([graph.nodes[u]["atomname"], graph.nodes[v]["atomname"]]) + [_norm(o)]
                             for u, v, o in graph.edges(data="order"))
                want = sorted(sorted(e[:2]) + [_norm(e[2])] for e in spec["edges"])
                if got != want:
                    return "group %s edges %r != %r" % (spec["name"], got, want)
                got_d = {graph.nodes[n]["atomname"]: list(graph.nodes[n]["bonding"])
                         for n in graph.nodes if graph.nodes[n].get("bonding")}
                if got_d != spec["descs"]:
                    return "group %s descriptors %r != %r" % (spec["name"], got_d, spec["descs"])
        # leaf definitions
        frags = read_fragments(item["blocks"][-1], all_atom=item["last_all_atom"])
        mol = item["mol"]
        bonds = {(i, j): o for i, j, o in mol["bonds"]}
        for leaf in item["leaf_defs"]:
            graph = frags.get(leaf["name"])
            if graph is None:
                return "leaf %s missing" % leaf["name"]
            atoms = leaf["atoms"]
            if sorted(graph.nodes) != list(range(len(atoms))):
                return "leaf %s nodes %r" % (leaf["name"], sorted(graph.nodes))
            for pos, a in enumerate(atoms):
                atom = mol["atoms"][a]
                data = graph.nodes[pos]
                if "name" in atom:
                    if data.get("atomname") != atom["name"]:
                        return "leaf %s pos %d name" % (leaf["name"], pos)
                else:
                    if data.get("element") != atom["el"] or int(data.get("charge", 0)) != atom["charge"]:
                        return "leaf %s pos %d element/charge" % (leaf["name"], pos)
                    if bool(data.get("aromatic", False)) != bool(atom["arom"]):
                        return "leaf %s pos %d aromatic" % (leaf["name"], pos)
                    if float(data.get("weight", 1)) != float(atom["w"] if atom.get("w") is not None else 1):
                        return "leaf %s pos %d weight %r" % (leaf["name"], pos, data.get("weight"))
                got_d = list(data.get("bonding", []) or [])
                want_d = leaf["descs"].get(str(pos), [])
                if got_d != want_d:
                    return "leaf %s pos %d descriptors %r != %r" % (leaf["name"], pos, got_d, want_d)
            pos_of = {a: k for k, a in enumerate(atoms)}
            want = sorted((min(pos_of[i], pos_of[j]), max(pos_of[i], pos_of[j]), _norm(o))
                          for (i, j), o in bonds.items() if i in pos_of and j in pos_of)
            got = sorted((min(u, v), max(u, v), _norm(o)) for u, v, o in graph.edges(data="order"))
            if want != got:
                return "leaf %s edges %r != %r" % (leaf["name"], got, want)
    except Exception as exc:  # noqa - whatever the readers raise is a reject, not an alarm
        return "reader raised %s: %s" % (type(exc).__name__, str(exc)[:100])
    return None
