"""
RDKit bridge simulation (property C18).

The stochastic external engine (RDKit's embedder) sits behind SimEmbedder,
installed as `cgsmiles.rdkit.AllChem`:
  * stub engine: atom index i receives the unique coordinate (i, 1000+i, -i),
    the optimiser is a no-op; every stored position is attributable to one
    RDKit atom, so 'each node holds the coordinates of its own atom' is checked
    literally;
  * real engine, simulator-seeded: ETKDG + UFF with the run's seed; bonded
    pairs must lie at bonding distance.
A run is a short history of bridge calls on one resolved molecule whose node
insertion order and keys were permuted by the harness: round trips with and
without conformer, embed, embed+forward-map, forward map after a rigid
translation, engine reseeds, foreign RNG use.
"""
import copy
import math

from .core import H, rng_for, digest, sha, jdump, HarnessError, raised_in_harness, apply_env, env_debug_logging
from . import gen_mol

KEKULE_CURATED = [
    "{[#A][#B]}.{#A=C1=CSC=C1[$],#B=[$]CC}",
    "{[#A]}.{#A=C1=COC=C1C}",
    "{[#A][#B]}.{#A=N1C=CC=C1[$],#B=[$]C(=O)O}",
]
CURATED = [
    ("{[#OHter][#PEO]|2[#OHter]}.{#PEO=[$]COC[$],#OHter=[$]O}", False),
    ("{[#TC5]1[#TC5][#TC5]1}.{#TC5=[$]cc[$]}", False),
    ("{[#SC3]1[#TC5][#TC5]1}.{#SC3=Cc(c[!])c[!],#TC5=[!]ccc[!]}", True),
    ("{[#A]([#B])[#B]}.{#A=OC[!][!],#B=[!]CC}", True),
    ("{[#SC2][#SC2][#SP1]}.{#SC2=[$]CCC[$],#SP1=[$]CCO}", False),
    ("{[#SP4]1[#SP4][#SP1r]1}.{#SP4=[O;0.5]([H;0.2])[C;0.1][$]C[$]O,#SP1r=[$]OC[$]CO}", False),
    ("{[#A][#B]}.{#A=[O;0.5]C[!],#B=[$][!][C;2.0]C}", True),
    ("{[#A]}.{#A=CCO}", False),
    # molecules with several disconnected parts (salts, zero-order edges, free monomers)
    ("{[#OHter][#PEO]|2[#OHter]}.{#PEO=[$]COC[$],#OHter=[$][O-].[Na+]}", False),
    ("{[#A].[#A]}.{#A=CCO}", False),
    ("{[#A][#B].[#C]}.{#A=CC[$],#B=[$]C[$],#C=[$]CO}", False),
    ("{[#M][#M].[#M]}.{#M=[$]CC[$]O}", False),
    ("{[#A]}.{#A=CC(=O)[O-].[Na+]}", False),
    ("{[#A]}.{#A=CC(=O)[O-].[Ca+2].[O-]C(=O)C}", False),
    ("{[#A][#B]}.{#A=[$]CC(=O)[O-].[Mg+2],#B=[$]CS(=O)(=O)[O-]}", False),
    # ring bonds between aromatic atoms that are not aromatic themselves (fluorene, 9,10-dihydrophenanthrene)
    ("{[#A]}.{#A=C1c2ccccc2-c2ccccc12}", False),
    ("{[#A]}.{#A=c1ccc2c(c1)CCc1ccccc1-2}", False),
    ("{[#A][#B]}.{#A=C1([$])c2ccccc2-c2ccccc12,#B=[$]CC}", False),
    # cis/trans-annotated double bonds whose substituents carry further atoms
    ("{[#A][#B]}.{#A=CC/C=C\\C[$],#B=[$]CO}", False),
    ("{[#A]}.{#A=OC/C=C/CO}", False),
    ("{[#A][#B]}.{#A=CC/C=C/C=C\\C[$],#B=[$]c1ccccc1}", False),
    ("{[#A]|2}.{#A=[$]C/C(C)=C\\C[$]}", False),
    # beads that carry a weight of their own (annotation of the coarse node)
    ("{[#A;0.5][#B;2.0][#A]}.{#A=[$]CC,#B=[$]C([C;0.25])[$]}", False),
    ("{[#P;w=3][#Q;w=0.1]}.{#P=[#a][#b;0.5][>],#Q=[<][#a]}.{#a=[$]CO[$],#b=[$]C[$]}", False),
]
# molecules with more than 100 atoms (rare: the real engine needs about a second for them)
BIG = [
    ("{[#OHter][#PEO]|18[#OHter]}.{#PEO=[$]COC[$],#OHter=[$]O}", False),
    ("{[#Hter][#PS]|8[#Hter]}.{#PS=[$]CC[$]c1ccccc1,#Hter=[$][H]}", False),
    ("{[#A][#M]|30[#A]}.{#M=[>]CC[<],#A=[$]C}", False),
]


REPEAT_UNITS = [("[!]CC[!]", 2), ("[!]C[C;0.5][!]", 2), ("[!]COC[!]", 3), ("[!]C(C)C[!]", 3), ("[!]C[O;2.0]C[!]", 3),
                ("[$]CC[$]", 2), ("[$]C[C;0.25]O[$]", 3), ("[>]CC[<]C(=O)OC", 2), ("[>]C[C;3.0][<]", 2)]


def _repeat_source(rng):
    """Chains of repeated units, so that several beads share one fragment name (template reuse)."""
    style = rng.choice(["squash", "squash", "dollar", "arrow"])
    if style == "squash":
        units = [u for u in REPEAT_UNITS if u[0].startswith("[!]")]
        start = rng.choice(["C[C;0.5][!]", "OC[!]", "[N;2.0]C[!]", "CC[!]"])
        end = rng.choice(["[!]CC", "[!]C[O;0.1]", "[!]CCl"])
    elif style == "dollar":
        units = [u for u in REPEAT_UNITS if u[0].startswith("[$]")]
        start, end = rng.choice(["C[$]", "[O;0.5]C[$]"]), rng.choice(["[$]C", "[$]O", "[$]C[N;2.0]"])
    else:
        units = [u for u in REPEAT_UNITS if u[0].startswith("[>]")]
        start, end = rng.choice(["C[>]", "[O;0.5][>]"]), rng.choice(["[<]C", "[<]O"])
    picks = rng.sample(units, k=min(len(units), rng.choice([1, 1, 2])))
    names = ["B", "M"]
    seq = [rng.randrange(len(picks)) for _ in range(rng.randint(2, 5))]
    base = "[#A]" + "".join("[#%s]" % names[k] for k in seq) + "[#D]"
    defs = ["#A=" + start] + ["#%s=%s" % (names[k], picks[k][0]) for k in range(len(picks))] + ["#D=" + end]
    return {"string": "{" + base + "}.{" + ",".join(defs) + "}", "family": "repeat", "shared_atoms": style == "squash"}


def _source(rng):
    roll = rng.random()
    if roll < 0.55:
        item = gen_mol.build_item(rng, kind="atomistic", size=rng.randint(2, 22), weights=rng.random() < 0.7,
                                  mid_levels=rng.choice([0, 0, 1, 2]),
                                  explicit_h=rng.random() < 0.3)
        return {"string": item["multi"], "family": "decomp", "shared_atoms": False, "item": item}
    if roll < 0.75:
        return _repeat_source(rng)
    if roll < 0.90:
        text, shared = rng.choice(CURATED)
        return {"string": text, "family": "curated", "shared_atoms": shared}
    if roll < 0.93:
        text, shared = rng.choice(BIG)
        return {"string": text, "family": "big", "shared_atoms": shared}
    return {"string": rng.choice(KEKULE_CURATED), "family": "kekule", "shared_atoms": False}


def generate(run_seed, prop, tier="quick"):
    rng = rng_for("rdkit-scenario", run_seed)
    sources = [_source(rng)]
    if rng.random() < 0.25:
        sources.append(_source(rng))
    engine = "stub" if rng.random() < 0.55 else "real"
    ops = []
    n_ops = rng.randint(2, 7)
    pool = ["roundtrip", "embed", "embed", "embed_cg", "embed_cg", "roundtrip_conf", "translate_forward", "reseed",
            "foreign_rng", "forward", "repermute", "repermute", "reweight", "preset_positions", "map_copy", "bead_weights", "embed_back"]
    for _ in range(n_ops):
        kind = rng.choice(pool)
        op = {"op": kind, "m": rng.randrange(len(sources))}
        if kind == "translate_forward":
            op["t"] = [rng.choice([0.0, 1.0, -3.5, 10.0, 123.25]) for _ in range(3)]
            if rng.random() < 0.3:
                op["to_origin"] = rng.randrange(10 ** 6)      # "shift by minus the position of atom k"
        if kind == "reseed":
            op["seed"] = rng.randrange(1, 2 ** 30)
        if kind == "foreign_rng":
            op["seed"] = rng.randrange(2 ** 31)
        if kind == "repermute":
            op.update({"permute": rng.choice(["reverse", "shuffle", "shuffle"]), "relabel": rng.choice(["none", "none", "shuffle", "offset", "negative"]),
                       "perm_seed": rng.randrange(2 ** 30), "beads": rng.random() < 0.5})
        if kind == "embed_back":
            op.update({"permute": rng.choice(["none", "reverse", "shuffle", "shuffle"]), "relabel": rng.choice(["none", "none", "shuffle", "offset"]),
                       "perm_seed": rng.randrange(2 ** 30)})
        if kind == "reweight":
            op.update({"seed": rng.randrange(2 ** 30), "fraction": rng.choice([0.1, 0.3, 0.6]),
                       "scale": rng.choice([1.0, 1.0, 1e-10, 1e8]), "normalised": rng.random() < 0.3})
            if op["normalised"]:
                op.update({"fraction": 0.0, "scale": 1.0})
        if kind == "preset_positions":
            op["how"] = rng.choice(["shared_zeros", "int_zeros", "own_zeros"])
        if kind == "bead_weights":
            op["seed"] = rng.randrange(2 ** 30)
        if kind == "map_copy":
            op["t"] = [rng.choice([1.0, -3.5, 10.0]) for _ in range(3)]
        ops.append(op)
    if not any(o["op"] in ("embed", "embed_cg") for o in ops):
        ops.insert(rng.randrange(len(ops) + 1), {"op": rng.choice(["embed", "embed_cg"]), "m": 0})
    if not any(o["op"] == "roundtrip" for o in ops) and rng.random() < 0.7:
        ops.insert(0, {"op": "roundtrip", "m": 0})
    if rng.random() < 0.5:
        # embed, change the node order, embed again: the second call must not reuse anything of the first
        m = rng.randrange(len(sources))
        ops += [{"op": "embed", "m": m},
                {"op": "repermute", "m": m, "permute": "shuffle", "relabel": rng.choice(["none", "shuffle"]), "perm_seed": rng.randrange(2 ** 30)},
                {"op": rng.choice(["embed", "embed_cg"]), "m": m}]
    return {"family": "rdkit", "prop": prop, "run_seed": run_seed, "sources": sources, "engine": engine, "debug_logging": env_debug_logging(run_seed),
            "embed_seed": rng.randrange(1, 2 ** 30),
            "permute": rng.choice(["none", "reverse", "shuffle", "shuffle"]),
            "relabel": rng.choice(["none", "none", "shuffle", "offset", "negative"]),
            "perm_seed": rng.randrange(2 ** 30), "ops": ops}


# ---------------------------------------------------------------------------
# the engine seam
# ---------------------------------------------------------------------------

class SimEmbedder:
    """Proxy for rdkit.Chem.AllChem as seen by cgsmiles.rdkit."""

    def __init__(self, real, mode, seed):
        self._real = real
        self.mode = mode
        self.seed = seed
        self.calls = 0
        self.opt_calls = 0
        self.failures = 0
        self.last_atoms = None

    def __getattr__(self, name):
        return getattr(self._real, name)

    def _record(self, mol):
        table = []
        for atom in mol.GetAtoms():
            table.append({"el": atom.GetSymbol(), "charge": int(atom.GetFormalCharge()),
                          "nbrs": sorted(n.GetIdx() for n in atom.GetNeighbors())})
        self.last_atoms = table

    def EmbedMolecule(self, mol, *args, **kwargs):
        from rdkit import Chem
        from rdkit.Geometry import Point3D
        self.calls += 1
        self._record(mol)
        if self.mode == "stub":
            conf = Chem.Conformer(mol.GetNumAtoms())
            for idx in range(mol.GetNumAtoms()):
                conf.SetAtomPosition(idx, Point3D(float(idx), 1000.0 + idx, -float(idx)))
            mol.RemoveAllConformers()
            mol.AddConformer(conf, assignId=True)
            return 0
        kwargs.setdefault("randomSeed", int(self.seed))
        status = self._real.EmbedMolecule(mol, *args, **kwargs)
        if status != 0:
            self.failures += 1
        return status

    def UFFOptimizeMolecule(self, mol, *args, **kwargs):
        self.opt_calls += 1
        if self.mode == "stub":
            return 0
        return self._real.UFFOptimizeMolecule(mol, *args, **kwargs)


# ---------------------------------------------------------------------------
# helpers
# ---------------------------------------------------------------------------

def _permute(graph, how, seed, relabel):
    """Rebuild the graph with another node insertion order and/or other integer keys."""
    import random
    import networkx as nx
    rng = random.Random(seed)
    nodes = list(graph.nodes)
    if how == "reverse":
        nodes.reverse()
    elif how == "shuffle":
        rng.shuffle(nodes)
    mapping = {n: n for n in nodes}
    if relabel == "shuffle":
        keys = list(graph.nodes)
        rng.shuffle(keys)
        mapping = dict(zip(graph.nodes, keys))
    elif relabel == "offset":
        mapping = {n: n * 3 + 7 for n in graph.nodes}
    elif relabel == "negative":
        shift = 1 + rng.randrange(max(1, len(keys_all := list(graph.nodes))))
        mapping = {n: k - shift for k, n in enumerate(keys_all)}
    out = nx.Graph()
    for node in nodes:
        out.add_node(mapping[node], **copy.deepcopy(graph.nodes[node]))
    edges = list(graph.edges(data=True))
    if how != "none":
        rng.shuffle(edges)
    for u, v, data in edges:
        out.add_edge(mapping[u], mapping[v], **copy.deepcopy(data))
    return out, mapping


def _chem_graph(graph, total_h):
    """Reduced labelled graph: heavy atoms with (element, charge, total H), bonds with order."""
    import networkx as nx
    from .graphcmp import _norm_order
    out = nx.Graph()
    for node, data in graph.nodes(data=True):
        if data.get("element") == "H" and graph.degree(node) == 1 and \
                graph.nodes[next(iter(graph[node]))].get("element") != "H":
            continue
        out.add_node(node, label=(data.get("element"), int(data.get("charge", 0) or 0), int(total_h(node))))
    for u, v, data in graph.edges(data=True):
        if u in out and v in out:
            out.add_edge(u, v, order=_norm_order(data.get("order", 1)))
    return out


def _total_h(graph):
    def fn(node):
        if graph.nodes[node].get("element") == "H":
            return 0
        explicit = sum(1 for nb in graph[node] if graph.nodes[nb].get("element") == "H" and graph.degree(nb) == 1)
        return explicit + int(graph.nodes[node].get("hcount", 0) or 0)
    return fn


def _aromatised_signature(before, after, order_map):
    """
    Classify a bond-order disagreement of a round trip: 'localised-ring-aromatised'
    iff everything that changed is a ring whose localised single/double bonds came
    back as 1.5 (RDKit's aromaticity model vs pysmiles'); anything else is
    'chemistry-changed'.
    """
    import networkx as nx
    changed = []
    for u, v, data in before.edges(data=True):
        a, b = order_map[u], order_map[v]
        if not after.has_edge(a, b):
            return "chemistry-changed"
        o_in = float(data.get("order", 1))
        o_out = float(after.edges[a, b].get("order", 1))
        if o_in != o_out:
            if o_out == 1.5 and o_in in (1.0, 2.0):
                changed.append((u, v))
            else:
                return "chemistry-changed"
    if not changed:
        return None
    arom = nx.Graph()
    for u, v, data in before.edges(data=True):
        if float(after.edges[order_map[u], order_map[v]].get("order", 1)) == 1.5:
            arom.add_edge(u, v)
    ring_edges = set()
    for cycle in nx.cycle_basis(arom):
        for k in range(len(cycle)):
            ring_edges.add(frozenset((cycle[k], cycle[(k + 1) % len(cycle)])))
    if all(frozenset(e) in ring_edges for e in changed):
        return "localised-ring-aromatised"
    return "chemistry-changed"


class _Shadow:
    """A graph judged by the embedding oracle that is not one of the history's molecules."""


class _Mol:
    """One resolved molecule of the history (coarse graph, all-atom graph, bead membership)."""

    def __init__(self, cg, aa):
        self.cg = cg
        self.aa = aa
        self.refresh()

    def refresh(self):
        self.members = {}
        for node in self.aa.nodes:
            for bead in self.aa.nodes[node].get("fragid", []):
                self.members.setdefault(bead, []).append(node)

    def repermute(self, how, seed, relabel, beads=False):
        import networkx as nx
        if beads:
            # the coarse graph rebuilt with another node insertion order (same keys, same attribute objects)
            import random
            order = list(self.cg.nodes)
            random.Random(seed + 1).shuffle(order)
            if how == "reverse":
                order = list(reversed(list(self.cg.nodes)))
            new = nx.Graph()
            new.graph.update(self.cg.graph)
            for bead in order:
                new.add_node(bead, **dict(self.cg.nodes[bead]))
            for u, v, data in self.cg.edges(data=True):
                new.add_edge(u, v, **dict(data))
            self.cg = new
        aa, mapping = _permute(self.aa, how, seed, relabel)
        for cnode in self.cg.nodes:
            sub = self.cg.nodes[cnode].get("graph")
            if sub is not None:
                self.cg.nodes[cnode]["graph"] = nx.relabel_nodes(sub, mapping, copy=True)
        self.aa = aa
        self.refresh()


def run_history(scenario):
    import numpy as np
    import random as stdlib_random
    import networkx as nx
    import cgsmiles.rdkit as bridge
    import cgsmiles.coordinates as coords
    from cgsmiles.resolve import MoleculeResolver
    from . import graphcmp
    sc = scenario
    stdlib_random.seed(H("global-random", sc["run_seed"]))
    np.random.seed(H("global-numpy", sc["run_seed"]) % 2 ** 32)
    violations = []
    stats = {}
    events = []
    apply_env(sc, stats)

    def violate(oracle, detail, seq, signature=None):
        violations.append({"oracle": oracle, "detail": detail, "event": seq, "signature": signature})

    # -- the molecules, resolved by the real code, then permuted by the harness --------------
    mols = []
    for idx, source in enumerate(sc["sources"]):
        try:
            cg, aa0 = MoleculeResolver.from_string(source["string"]).resolve_all()
        except Exception as exc:  # noqa
            return {"events": [], "violations": [], "stats": {}, "rejected": "resolve raised %s: %s" % (type(exc).__name__, str(exc)[:80])}
        mol = _Mol(cg, aa0)
        mol.repermute(sc["permute"], sc["perm_seed"] + idx, sc["relabel"])
        mols.append(mol)
        stats["iteration_order_differs_from_keys"] = max(stats.get("iteration_order_differs_from_keys", 0),
                                                         int(list(mol.aa.nodes) != sorted(mol.aa.nodes)))
        stats["atoms"] = stats.get("atoms", 0) + len(mol.aa)
        names = [mol.cg.nodes[b].get("fragname") for b in mol.cg.nodes]
        if len(names) != len(set(names)):
            stats["molecules_with_repeated_bead_names"] = stats.get("molecules_with_repeated_bead_names", 0) + 1
    proxy = SimEmbedder(bridge.AllChem, sc["engine"], sc["embed_seed"])
    bridge.AllChem = proxy

    def chem_equal(graph_in, graph_out, order_map, seq, what):
        """Elements, charges, bond orders and hydrogen counts preserved (representation independent)."""
        a = _chem_graph(graph_in, _total_h(graph_in))
        b = _chem_graph(graph_out, _total_h(graph_out))
        ok, why = graphcmp.isomorphic(a, b)
        if ok:
            return True
        try:
            signature = _aromatised_signature(graph_in, graph_out, order_map)
        except Exception:  # noqa
            signature = "chemistry-changed"
        violate("C18.roundtrip", "%s: %s" % (what, why), seq, signature or "chemistry-changed")
        return False

    def have_positions(mol):
        return all("position" in mol.aa.nodes[n] for n in mol.aa.nodes)

    def check_positions(mol, seq, engine_called):
        """Oracle for embed ops."""
        aa = mol.aa
        for node in aa.nodes:
            pos = aa.nodes[node].get("position")
            if pos is None or np.shape(pos) != (3,) or not np.all(np.isfinite(pos)):
                violate("C18.embed", "node %r has no finite 3-vector after embedding (%r)" % (node, pos), seq, "no-position")
                return
        if sc["engine"] == "stub" and engine_called:
            table = getattr(mol, "table", None) or proxy.last_atoms
            seen = {}
            for node in aa.nodes:
                pos = aa.nodes[node]["position"]
                idx = int(round(float(pos[0])))
                if not (0 <= idx < len(table)) or abs(pos[1] - (1000.0 + idx)) > 1e-6 or abs(pos[2] + idx) > 1e-6:
                    violate("C18.embed", "node %r carries %r which is no coordinate the engine produced" % (node, list(map(float, pos))), seq, "foreign-coordinate")
                    return
                if idx in seen:
                    violate("C18.embed", "nodes %r and %r both carry the coordinates of engine atom %d" % (seen[idx], node, idx), seq, "wrong-atom")
                    return
                seen[idx] = node
            atom_of = {node: idx for idx, node in seen.items()}
            wrong = 0
            first = None
            for node in aa.nodes:
                atom = table[atom_of[node]]
                if atom["el"] != aa.nodes[node].get("element") or atom["charge"] != int(aa.nodes[node].get("charge", 0) or 0):
                    wrong += 1
                    first = first or "node %r (%s) carries the coordinates of engine atom %d (%s)" % (
                        node, aa.nodes[node].get("element"), atom_of[node], atom["el"])
            for u, v in aa.edges:
                if atom_of[v] not in table[atom_of[u]]["nbrs"]:
                    wrong += 1
                    first = first or "bonded nodes %r-%r carry the coordinates of engine atoms %d and %d, which are not bonded" % (
                        u, v, atom_of[u], atom_of[v])
            if wrong:
                violate("C18.embed", "%d misplaced coordinates; %s" % (wrong, first), seq, "wrong-atom")
        else:
            # real engine - or an embed call that never reached the engine: judge by geometry
            lo, hi = (0.7, 2.3) if sc["engine"] == "real" else (1.0, 1.8)
            bad = 0
            first = None
            for u, v in aa.edges:
                if float(aa.edges[u, v].get("order", 1) or 0) == 0:
                    continue        # the '.' of a salt is no bond
                dist = float(np.linalg.norm(aa.nodes[u]["position"] - aa.nodes[v]["position"]))
                if not (lo <= dist <= hi):
                    bad += 1
                    first = first or "bonded atoms %r-%r are %.2f A apart" % (u, v, dist)
            stats["bonded_distances_checked"] = stats.get("bonded_distances_checked", 0) + aa.number_of_edges()
            if bad:
                what = "" if engine_called else " (the embed call never reached the engine: stale coordinates)"
                violate("C18.embed", "%d of %d bonded pairs outside %.1f-%.1f A%s; %s" % (bad, aa.number_of_edges(), lo, hi, what, first), seq, "wrong-atom")

    def check_forward(mol, seq):
        aa, cg = mol.aa, mol.cg
        for bead in cg.nodes:
            nodes = mol.members.get(bead, [])
            if not nodes:
                continue
            wsum = sum(float(aa.nodes[n].get("weight", 1) or 0) for n in nodes)
            wabs = sum(abs(float(aa.nodes[n].get("weight", 1) or 0)) for n in nodes)
            if wsum == 0 or abs(wsum) < 1e-6 * wabs:
                continue      # no weight-normalised average (weights cancel)
            want = sum(float(aa.nodes[n].get("weight", 1) or 0) * np.asarray(aa.nodes[n]["position"], dtype=float) for n in nodes) / wsum
            got = cg.nodes[bead].get("position")
            if got is None or np.shape(got) != (3,) or not np.allclose(got, want, rtol=1e-9, atol=1e-9):
                violate("C18.forward-map", "bead %r (%s) is at %r, weight-normalised average of its %d atoms is %r"
                        % (bead, cg.nodes[bead].get("fragname"), None if got is None else [round(float(x), 6) for x in got], len(nodes),
                           [round(float(x), 6) for x in want]), seq, "bead-position")
                return
        stats["beads_checked"] = stats.get("beads_checked", 0) + len(cg)

    for seq, op in enumerate(sc["ops"]):
        kind = op["op"]
        event = {"seq": seq, "op": kind}
        mol = mols[op.get("m", 0) % len(mols)]
        aa, cg = mol.aa, mol.cg
        try:
            if kind == "roundtrip":
                work = copy.deepcopy(aa)
                for node in work.nodes:
                    work.nodes[node].pop("position", None)
                rdmol = bridge.networkx_to_rdkit(work)
                back = bridge.rdkit_to_networkx(rdmol)
                order_map = {node: idx for idx, node in enumerate(work.nodes)}
                chem_equal(work, back, order_map, seq, "round trip without conformer")
                if any("position" in back.nodes[n] for n in back.nodes):
                    violate("C18.roundtrip", "positions appeared although the RDKit molecule has no conformer", seq, "position-presence")
                event["out"] = "ok"
                event["dig"] = digest(back)
            elif kind == "roundtrip_conf":
                work = copy.deepcopy(aa)
                rdmol = bridge.networkx_to_rdkit(work)
                status = proxy.EmbedMolecule(rdmol)
                if status != 0 or rdmol.GetNumConformers() == 0:
                    event["out"] = "engine-failed"
                else:
                    conf = rdmol.GetConformer()
                    back = bridge.rdkit_to_networkx(rdmol)
                    order_map = {node: idx for idx, node in enumerate(work.nodes)}
                    chem_equal(work, back, order_map, seq, "round trip with conformer")
                    for idx in range(rdmol.GetNumAtoms()):
                        pos = back.nodes[idx].get("position") if idx in back.nodes else None
                        ref = conf.GetAtomPosition(idx)
                        if pos is None or not np.allclose(pos, [ref.x, ref.y, ref.z], atol=1e-9):
                            violate("C18.roundtrip", "atom %d: position %r differs from the conformer's (%.3f, %.3f, %.3f)"
                                    % (idx, None if pos is None else list(map(float, pos)), ref.x, ref.y, ref.z), seq, "conformer-position")
                            break
                    event["out"] = "ok"
                    event["dig"] = sha(jdump([[round(float(x), 4) for x in back.nodes[n]["position"]] if "position" in back.nodes[n] else None
                                              for n in sorted(back.nodes)]))
            elif kind in ("embed", "embed_cg"):
                calls0 = proxy.calls
                if kind == "embed":
                    bridge.embed_3d_via_rdkit(aa)
                else:
                    coords.embedd_cg_molecule_via_rdkit(cg, aa)
                if proxy.calls == calls0:
                    stats["probe:embed_without_engine_call"] = stats.get("probe:embed_without_engine_call", 0) + 1
                mol.table = proxy.last_atoms if proxy.calls > calls0 else None
                mol.embedded = True
                mol.moved = False
                check_positions(mol, seq, proxy.calls > calls0)
                if kind == "embed_cg":
                    check_forward(mol, seq)
                event["out"] = "ok"
                event["dig"] = sha(jdump([[round(float(x), 4) for x in aa.nodes[n]["position"]] for n in sorted(aa.nodes)]))
                stats["embeds_ok"] = stats.get("embeds_ok", 0) + 1
            elif kind == "embed_back":
                # the graph that came back from RDKit (whatever the bridge left on its nodes), rebuilt in another
                # node order, is embedded itself: its atoms must get their own coordinates like any other graph's
                work = copy.deepcopy(aa)
                for node in work.nodes:
                    work.nodes[node].pop("position", None)
                back = bridge.rdkit_to_networkx(bridge.networkx_to_rdkit(work))
                again, _ = _permute(back, op["permute"], op["perm_seed"], op["relabel"])
                calls0 = proxy.calls
                bridge.embed_3d_via_rdkit(again)
                shadow = _Shadow()
                shadow.aa = again
                shadow.table = proxy.last_atoms if proxy.calls > calls0 else None
                check_positions(shadow, seq, proxy.calls > calls0)
                event["out"] = "ok"
                event["dig"] = sha(jdump([[round(float(x), 4) for x in again.nodes[n]["position"]] for n in sorted(again.nodes)]))
                stats["embeds_of_returned_graph"] = stats.get("embeds_of_returned_graph", 0) + 1
            elif kind == "forward":
                if not have_positions(mol):
                    event["out"] = "skipped"
                else:
                    coords.forward_map_molecule(cg, aa)
                    check_forward(mol, seq)
                    event["out"] = "ok"
            elif kind == "translate_forward":
                if not have_positions(mol):
                    event["out"] = "skipped"
                else:
                    coords.forward_map_molecule(cg, aa)
                    before = {b: np.array(cg.nodes[b]["position"], dtype=float) for b in cg.nodes if "position" in cg.nodes[b]}
                    shift = np.array(op["t"], dtype=float)
                    if op.get("to_origin") is not None:
                        nodes = list(aa.nodes)
                        shift = -np.asarray(aa.nodes[nodes[op["to_origin"] % len(nodes)]]["position"], dtype=float)
                    for node in aa.nodes:
                        aa.nodes[node]["position"] = np.asarray(aa.nodes[node]["position"], dtype=float) + shift
                    mol.moved = True
                    coords.forward_map_molecule(cg, aa)
                    check_forward(mol, seq)
                    for bead, old in before.items():
                        wsum = sum(float(aa.nodes[n].get("weight", 1) or 0) for n in mol.members.get(bead, []))
                        wabs = sum(abs(float(aa.nodes[n].get("weight", 1) or 0)) for n in mol.members.get(bead, []))
                        if wsum == 0 or abs(wsum) < 1e-6 * wabs:
                            continue   # a bead whose atom weights sum to 0 has no weight-normalised average
                        new = np.asarray(cg.nodes[bead]["position"], dtype=float)
                        if not np.allclose(new - old, shift, rtol=0, atol=1e-7):
                            violate("C18.forward-map", "translating all atoms by %r moved bead %r by %r"
                                    % (list(shift), bead, [round(float(x), 6) for x in (new - old)]), seq, "translation")
                            break
                    stats["translations"] = stats.get("translations", 0) + 1
                    event["out"] = "ok"
            elif kind == "preset_positions":
                # the caller initialises bead positions with placeholders before mapping
                if op["how"] == "shared_zeros":
                    nx.set_node_attributes(cg, np.zeros(3), "position")          # one array object for all beads
                elif op["how"] == "int_zeros":
                    for bead in cg.nodes:
                        cg.nodes[bead]["position"] = np.zeros(3, dtype=int)
                else:
                    for bead in cg.nodes:
                        cg.nodes[bead]["position"] = np.zeros(3)
                stats["fault:preset-bead-positions:fired"] = stats.get("fault:preset-bead-positions:fired", 0) + 1
                event["out"] = "ok"
            elif kind == "map_copy":
                # a second system: shallow copy of the coarse graph, translated copy of the atoms; mapping the
                # second system must leave the first one's beads where they are
                if not have_positions(mol):
                    event["out"] = "skipped"
                else:
                    coords.forward_map_molecule(cg, aa)
                    check_forward(mol, seq)
                    cg2 = cg.copy()
                    aa2 = copy.deepcopy(aa)
                    shift = np.array(op["t"], dtype=float)
                    for node in aa2.nodes:
                        aa2.nodes[node]["position"] = np.asarray(aa2.nodes[node]["position"], dtype=float) + shift
                    coords.forward_map_molecule(cg2, aa2)
                    check_forward(mol, seq)          # the original system, judged against its own atoms
                    stats["fault:second-system-from-shallow-copy:fired"] = stats.get("fault:second-system-from-shallow-copy:fired", 0) + 1
                    event["out"] = "ok"
            elif kind == "repermute":
                mol.repermute(op["permute"], op["perm_seed"], op["relabel"], beads=bool(op.get("beads")))
                if op.get("beads"):
                    stats["fault:bead-order-changed:fired"] = stats.get("fault:bead-order-changed:fired", 0) + 1
                stats["fault:reorder-between-calls:fired"] = stats.get("fault:reorder-between-calls:fired", 0) + 1
                event["out"] = "ok"
            elif kind == "reweight":
                # a user re-weights individual atoms of individual beads after resolution
                import random
                rng = random.Random(op["seed"])
                scale = float(op.get("scale", 1.0))
                if op.get("normalised"):
                    # weights given as rounded fractions of the bead: they add up to almost, not exactly, one
                    for bead in cg.nodes:
                        sub = cg.nodes[bead].get("graph")
                        members = [n for n in mol.members.get(bead, []) if len(aa.nodes[n].get("fragid", [])) == 1]
                        if sub is None or not members:
                            continue
                        share = round(1.0 / len(members), 5)
                        for node in members:
                            aa.nodes[node]["weight"] = share
                            if node in sub.nodes:
                                sub.nodes[node]["weight"] = share
                    stats["fault:reweight-normalised:fired"] = stats.get("fault:reweight-normalised:fired", 0) + 1
                if scale != 1.0:
                    # the same weights in other units: only their ratios matter for a weight-normalised average
                    for node in list(aa.nodes):
                        weight = float(aa.nodes[node].get("weight", 1) or 0) * scale
                        aa.nodes[node]["weight"] = weight
                        for bead in aa.nodes[node].get("fragid", []):
                            sub = cg.nodes[bead].get("graph") if bead in cg.nodes else None
                            if sub is not None and node in sub.nodes:
                                sub.nodes[node]["weight"] = weight
                for node in list(aa.nodes):
                    if rng.random() < op["fraction"]:
                        weight = rng.choice([0.5, 2.0, 0.25, 4.0, 1.5, 0.5, 2.0, -0.5]) * scale
                        aa.nodes[node]["weight"] = weight
                        for bead in aa.nodes[node].get("fragid", []):
                            sub = cg.nodes[bead].get("graph") if bead in cg.nodes else None
                            if sub is not None and node in sub.nodes:
                                sub.nodes[node]["weight"] = weight
                stats["fault:reweight:fired"] = stats.get("fault:reweight:fired", 0) + 1
                event["out"] = "ok"
            elif kind == "bead_weights":
                # the user gives the beads weights of their own (for the next coarser mapping): a bead's position is
                # the average of ITS ATOMS and does not depend on the weight the bead itself carries
                import random
                rng = random.Random(op["seed"])
                for bead in cg.nodes:
                    cg.nodes[bead]["weight"] = rng.choice([0.5, 2.0, 0.1, 3.0, 1.0, 72.0])
                stats["fault:bead-weights-set:fired"] = stats.get("fault:bead-weights-set:fired", 0) + 1
                event["out"] = "ok"
            elif kind == "reseed":
                proxy.seed = op["seed"]
                event["out"] = "ok"
            elif kind == "foreign_rng":
                stdlib_random.seed(op["seed"])
                np.random.seed(op["seed"] % 2 ** 32)
                event["out"] = "ok"
            else:
                raise HarnessError("unknown op %r" % kind)
        except HarnessError:
            raise
        except Exception as exc:  # noqa
            if raised_in_harness(exc):
                raise HarnessError("harness bug in op %s: %s: %s" % (kind, type(exc).__name__, exc))
            text = "%s: %s" % (type(exc).__name__, str(exc)[:100])
            engine_failure = isinstance(exc, ValueError) and "Conformer" in str(exc) and proxy.failures > 0
            # RDKit's UFF refuses molecules with a zero-order bond (pysmiles keeps the '.' of a salt such as
            # [O-].[Na+] as an order-0 edge): nothing is stored, the property is silent -> outcome, not verdict
            zero_bond = any(float(d.get("order", 1) or 0) == 0 for _, _, d in aa.edges(data=True))
            engine_refused = isinstance(exc, RuntimeError) and "bad bond order" in str(exc) and zero_bond and sc["engine"] == "real"
            if engine_failure:
                event["out"] = "engine-failed"
            elif engine_refused:
                event["out"] = "engine-refused"
                stats["engine_refused_zero_order_bond"] = stats.get("engine_refused_zero_order_bond", 0) + 1
            else:
                event["out"] = "exc:" + text
                if kind in ("roundtrip", "roundtrip_conf", "embed", "embed_cg", "embed_back", "forward", "translate_forward"):
                    oracle = {"embed_back": "C18.embed", "roundtrip": "C18.roundtrip", "roundtrip_conf": "C18.roundtrip", "embed": "C18.embed",
                              "embed_cg": "C18.embed", "forward": "C18.forward-map", "translate_forward": "C18.forward-map"}[kind]
                    violate(oracle, "%s raised %s" % (kind, text), seq, "raised:" + type(exc).__name__)
        events.append(event)
    # every molecule that was embedded is looked at once more when the history is over: what another molecule's
    # embedding, a translation of someone else or a re-ordering did in between must not have touched it
    for idx, mol in enumerate(mols):
        if getattr(mol, "embedded", False) and not getattr(mol, "moved", False) and all("position" in mol.aa.nodes[n] for n in mol.aa.nodes):
            check_positions(mol, len(sc["ops"]), getattr(mol, "table", None) is not None)
            stats["end_of_history_rechecks"] = stats.get("end_of_history_rechecks", 0) + 1
    stats["engine_calls"] = proxy.calls
    stats["engine_failures"] = proxy.failures
    stats["optimiser_calls"] = proxy.opt_calls
    return {"events": events, "violations": violations, "stats": stats}


def execute(scenario):
    from .procs import fork_call
    sc = scenario
    result = {"status": "ok", "violations": [], "stats": {}}
    items = [src["item"] for src in sc["sources"] if src.get("item") is not None]
    if items and not sc.get("admitted"):
        from .scen_resolver import admit_items
        reasons = fork_call(admit_items, (items,), timeout=120)
        if any(reasons):
            result["status"] = "rejected"
            result["reject_reasons"] = reasons
            return result
    sim = fork_call(run_history, (sc,), timeout=300)
    if sim.get("rejected"):
        result["status"] = "rejected"
        result["reject_reasons"] = [sim["rejected"]]
        return result
    for viol in sim["violations"]:
        result["violations"].append(dict(viol, where="simulated history (%s engine)" % sc["engine"]))
    stats = result["stats"]
    stats.update(sim["stats"])
    for ev in sim["events"]:
        stats["op:" + ev["op"]] = stats.get("op:" + ev["op"], 0) + 1
        out = ev.get("out", "")
        stats["outcome:" + (out if out in ("ok", "engine-failed", "engine-refused", "skipped") else "raised")] = \
            stats.get("outcome:" + (out if out in ("ok", "engine-failed", "engine-refused", "skipped") else "raised"), 0) + 1
        if ev["op"] in ("repermute", "reweight"):
            pass
        if ev["op"] == "reseed":
            stats["fault:engine-reseed:fired"] = stats.get("fault:engine-reseed:fired", 0) + 1
        if ev["op"] == "foreign_rng":
            stats["fault:foreign-rng:fired"] = stats.get("fault:foreign-rng:fired", 0) + 1
    stats["fault:engine-failure:observed"] = sim["stats"].get("engine_failures", 0)
    stats["engine:" + sc["engine"]] = 1
    for src in sc["sources"]:
        stats["family:" + src["family"]] = stats.get("family:" + src["family"], 0) + 1
    stats["permute:" + sc["permute"] + "/" + sc["relabel"]] = 1
    stats["case"] = sha(jdump([[src["string"] for src in sc["sources"]], sc["permute"], sc["relabel"], sc["perm_seed"], sc["engine"]]))
    result["digest"] = sha(jdump([[e.get(k) for k in ("seq", "op", "out", "dig")] for e in sim["events"]]))
    result["nontrivial"] = bool(sim["stats"].get("iteration_order_differs_from_keys"))
    result["sample"] = {"strings": [src["string"] for src in sc["sources"]], "engine": sc["engine"], "embed_seed": sc["embed_seed"],
                        "permute": sc["permute"], "relabel": sc["relabel"], "ops": sc["ops"],
                        "outcomes": [e.get("out") for e in sim["events"]]}
    return result


def shrink_candidates(scenario):
    sc = scenario
    for k in range(len(sc["ops"])):
        if len(sc["ops"]) > 1:
            new = copy.deepcopy(sc)
            del new["ops"][k]
            yield new
    if len(sc["sources"]) > 1:
        for keep in range(len(sc["sources"])):
            new = copy.deepcopy(sc)
            new["sources"] = [new["sources"][keep]]
            for op in new["ops"]:
                op["m"] = 0
            yield new
    if sc["permute"] != "none" or sc["relabel"] != "none":
        new = copy.deepcopy(sc)
        new["permute"] = "none"
        new["relabel"] = "none"
        yield new
    if sc["engine"] == "real":
        new = copy.deepcopy(sc)
        new["engine"] = "stub"
        yield new
    for idx, src in enumerate(sc["sources"]):
        for text, shared in CURATED:
            if len(text) < len(src["string"]):
                new = copy.deepcopy(sc)
                new["sources"][idx] = {"string": text, "family": "curated", "shared_atoms": shared}
                new["admitted"] = True
                yield new
