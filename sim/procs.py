"""
Process model of the simulator.

orchestrator (check.py)
  -> N worker interpreters (fresh exec, own PYTHONHASHSEED), protocol: one JSON
     line per task on stdin, one JSON line per result on a private fd
       -> per simulated run / per solo reference: os.fork() (pristine module
          globals, RNG states and default-argument objects every time)

A wall-clock kill or a dead child is a HarnessError, never a verdict.
"""
import os
import sys
import json
import pickle
import signal
import subprocess
import threading
import queue
import time
import traceback

from .core import HarnessError

REPO = os.environ.get("VERIF_REPO", "/repo")
VERIF = os.path.dirname(os.path.dirname(os.path.abspath(__file__)))
PYTHON = "/venv/bin/python"
HASH_SEEDS = ["0", "1", "4242", "31337", "2", "3", "977", "65537"]
# interpreter configuration is part of the environment the simulator varies: workers started with one of these hash
# seeds also run with PYTHONOPTIMIZE=1 (asserts compiled away); the flag is a function of the hash seed so that a
# replay file (which records the hash seed) reproduces it
OPTIMIZED_HASH_SEEDS = {"4242", "31337"}


class _Timeout(BaseException):
    pass


def _on_alarm(signum, frame):
    raise _Timeout()


def fork_call(fn, args=(), timeout=120):
    """
    Run fn(*args) in a forked child and return its (picklable) result.
    Exceptions inside fn are returned as ('exc', text) and re-raised here as
    HarnessError: fn is harness code and is expected to catch and record
    whatever the code under test raises.
    """
    rfd, wfd = os.pipe()
    pid = os.fork()
    if pid == 0:
        status = 0
        try:
            os.close(rfd)
            signal.signal(signal.SIGALRM, _on_alarm)
            signal.alarm(int(timeout))
            try:
                res = ("ok", fn(*args))
            except _Timeout:
                res = ("timeout", "child exceeded %ss" % timeout)
            except BaseException:  # noqa
                res = ("exc", traceback.format_exc())
            signal.alarm(0)
            data = pickle.dumps(res, protocol=4)
            with os.fdopen(wfd, "wb") as handle:
                handle.write(data)
        except BaseException:  # noqa
            status = 3
        finally:
            os._exit(status)
    os.close(wfd)
    chunks = []
    with os.fdopen(rfd, "rb") as handle:
        while True:
            chunk = handle.read(1 << 16)
            if not chunk:
                break
            chunks.append(chunk)
    _, wstatus = os.waitpid(pid, 0)
    data = b"".join(chunks)
    if not data:
        raise HarnessError("fork child died without a result (status %r)" % (wstatus,))
    kind, payload = pickle.loads(data)
    if kind == "ok":
        return payload
    if kind == "timeout":
        raise HarnessError("timeout: " + payload)
    raise HarnessError("exception in harness child:\n" + payload)


def worker_env(hash_seed):
    env = dict(os.environ)
    env.update({
        "PYTHONHASHSEED": str(hash_seed),
        "PYTHONPATH": REPO + os.pathsep + VERIF,
        "PBR_VERSION": "0.0.0",
        "PYTHONDONTWRITEBYTECODE": "1",
        "OMP_NUM_THREADS": "1",
        "OPENBLAS_NUM_THREADS": "1",
        "MKL_NUM_THREADS": "1",
        "NUMEXPR_NUM_THREADS": "1",
        "CGSMILES_VERIF": "1",
    })
    env.pop("PYTHONOPTIMIZE", None)
    if str(hash_seed) in OPTIMIZED_HASH_SEEDS:
        env["PYTHONOPTIMIZE"] = "1"
    return env


class Worker:
    def __init__(self, index, hash_seed):
        self.index = index
        self.hash_seed = str(hash_seed)
        self.proc = subprocess.Popen(
            [PYTHON, os.path.join(VERIF, "sim", "worker.py")],
            stdin=subprocess.PIPE, stdout=subprocess.PIPE, stderr=subprocess.DEVNULL,
            env=worker_env(hash_seed), cwd=VERIF, text=True, bufsize=1)
        line = self.proc.stdout.readline()
        if not line.startswith("READY"):
            raise HarnessError("worker %d did not start: %r" % (index, line))

    def call(self, task):
        self.proc.stdin.write(json.dumps(task) + "\n")
        self.proc.stdin.flush()
        line = self.proc.stdout.readline()
        if not line:
            raise HarnessError("worker %d died during task %r" % (self.index, task.get("run")))
        return json.loads(line)

    def close(self):
        try:
            self.proc.stdin.close()
        except Exception:
            pass
        try:
            self.proc.wait(timeout=5)
        except Exception:
            self.proc.kill()


def run_tasks(tasks, n_workers=None, deadline=None, progress=None, prepare=None):
    """
    Execute tasks ({'hash_seed': optional str, ...}) on a pool of workers.
    Tasks that pin a hash seed only go to a worker started with that seed.
    Returns the list of results in task order. Results of tasks skipped
    because the deadline passed are None.
    """
    n_workers = n_workers or int(os.environ.get("VERIF_WORKERS", "0")) or (os.cpu_count() or 4)
    n_workers = max(1, min(n_workers, len(tasks)))
    # every hash seed a task pins gets an interpreter of its own; the remaining workers rotate through the pool
    pinned = []
    for task in tasks:
        hs = task.get("hash_seed")
        if hs is not None and str(hs) not in pinned:
            pinned.append(str(hs))
    n_workers = max(n_workers, len(pinned))
    rotation = [hs for hs in HASH_SEEDS if hs not in pinned] or list(HASH_SEEDS)
    seeds = pinned + [rotation[i % len(rotation)] for i in range(n_workers - len(pinned))]
    queues = {hs: queue.Queue() for hs in set(seeds)}
    anyq = queue.Queue()
    for idx, task in enumerate(tasks):
        hs = task.get("hash_seed")
        if hs is not None and str(hs) in queues:
            queues[str(hs)].put((idx, task))
        else:
            anyq.put((idx, task))
    results = [None] * len(tasks)
    errors = []
    lock = threading.Lock()

    def loop(widx, hs):
        try:
            worker = Worker(widx, hs)
        except Exception as exc:  # noqa
            with lock:
                errors.append("worker start: %r" % (exc,))
            return
        try:
            while True:
                if deadline is not None and time.time() > deadline:
                    return
                try:
                    idx, task = queues[hs].get_nowait()
                except queue.Empty:
                    try:
                        idx, task = anyq.get_nowait()
                    except queue.Empty:
                        return
                task = dict(task)
                if prepare is not None:
                    task = prepare(task)
                    if task is None:
                        return
                task["hash_seed_used"] = hs
                try:
                    res = worker.call(task)
                except Exception as exc:  # noqa
                    with lock:
                        errors.append("task %r: %r" % (task.get("run"), exc))
                    return
                res["hash_seed_used"] = hs
                res["worker"] = widx
                results[idx] = res
                if progress:
                    progress(idx, res)
        finally:
            worker.close()

    threads = [threading.Thread(target=loop, args=(i, hs), daemon=True) for i, hs in enumerate(seeds)]
    for thread in threads:
        thread.start()
    for thread in threads:
        thread.join()
    return results, errors
