"""
Resolver simulation (properties C06 and C12; C09 resolver-side monitor).

One simulated run hosts several clients of the library in one process:
resolver clients (three constructors x three drivers) over shared fragment
libraries, plus co-tenants (sampler, writer, library grower, library editor,
malformed-input client, foreign-RNG client). A seeded scheduler interleaves
their public-API calls; faults (abort at a line, scribble on returned graphs,
abandoned iterators, malformed input, library growth) are part of the
scenario. Oracles: per-event invariants, library snapshots, isolation
reference (each client alone in a pristine fork), cross-client agreement with
a pristine per-item reference, reference by construction.
"""
import copy
import re

from .core import H, rng_for, digest, dumps, sha, jdump, iteration_order, HarnessError, raised_in_harness, apply_env, env_debug_logging
from . import gen_mol

MALFORMED = [
    "{[#A][#B]1}.{#A=CC[$],#B=OC[$]}",
    "{[#A]1[#B]1}.{#A=CC[$],#B=OC[$]}",
    "{[#A][#B]}.{#A=CC[$]}",
    "{[#A;w=ab=c][#B]}.{#A=CC[$],#B=OC[$]}",
    "{[#A;w=abc][#B]}.{#A=CC[$],#B=OC[$]}",
    "{[#A;w=1,c=1,q=a;d][#B]}.{#A=CC[$],#B=OC[$]}",
]

DRIVERS = ["manual", "iter", "all"]
CTORS = ["string", "graph", "dicts"]


# ---------------------------------------------------------------------------
# scenario generation (pure harness code)
# ---------------------------------------------------------------------------

def block_names(block):
    """Names defined in a fragment block, split the way the format defines it (not by regex:
    a SMILES such as OC#CC=O contains '#CC=')."""
    return [part[1:part.find("=")] for part in block[1:-1].split(",")]


def _driver_ops(driver, levels):
    if driver == "manual":
        return [{"op": "resolve"} for _ in range(levels)]
    if driver == "iter":
        return [{"op": "iter_open"}] + [{"op": "iter_next"} for _ in range(levels)] + [{"op": "iter_next", "expect_stop": True}]
    return [{"op": "resolve_all"}]


def _attempt(rng, ctor, driver, levels, perm, fault, item_idx, union_ok=False):
    """One construct + drive sequence; a faulty attempt is cut at the fault."""
    staged = 0
    if ctor == "graph" and levels >= 2 and rng.random() < 0.2:
        # stepwise resolution across two resolvers: the first levels are resolved by one resolver and the graph
        # that comes out is handed to from_graph together with the remaining fragment blocks
        staged = rng.randint(1, levels - 1)
        levels = levels - staged
    ops = [{"op": "construct", "ctor": ctor, "perm": perm, "item": item_idx}] + _driver_ops(driver, levels)
    if staged:
        ops[0]["staged"] = staged
    if ctor == "dicts" and union_ok and rng.random() < 0.25:
        ops[0]["union"] = True
    elif ctor == "dicts" and rng.random() < 0.15:
        # a project dict that stores the SAME fragment graph objects of the first level under other names
        ops[0]["alias"] = True
    if driver == "iter" and levels >= 2 and rng.random() < 0.15:
        # the first levels stepped by hand, the remaining ones taken from resolve_iter() (the generator yields the
        # remaining levels correctly; only exhausting it is left out: it would run past the last level)
        done = rng.randint(1, levels - 1)
        ops = ops[:1] + [{"op": "resolve"} for _ in range(done)] + [{"op": "iter_open"}] + \
            [{"op": "iter_next", "after_manual": done} for _ in range(levels - done)]
    if fault is None:
        return ops + [{"op": "drop"}]
    if fault == "abort":
        pos = rng.randrange(len(ops))
        if rng.random() < 0.75 and len(ops) > 1:
            pos = rng.randrange(1, len(ops))
        ops = ops[:pos + 1]
        ops[-1] = dict(ops[-1], abort_frac=rng.random())
        return ops + [{"op": "drop"}]
    if fault == "abandon":
        pos = rng.randrange(1, len(ops) + 1)
        ops = ops[:pos]
        if driver == "iter" and pos > 1 and rng.random() < 0.6:
            ops.append({"op": "iter_close"})
        return ops + [{"op": "drop"}]
    if fault == "scribble":
        # needs at least one returned pair of graphs
        cut = [k for k, o in enumerate(ops) if o["op"] in ("resolve", "iter_next", "resolve_all") and not o.get("expect_stop")]
        pos = rng.choice(cut)
        ops = ops[:pos + 1]
        ops.append({"op": "scribble", "how": rng.randrange(4)})
        return ops + [{"op": "drop"}]
    raise ValueError(fault)


def generate(run_seed, prop, tier="quick"):
    rng = rng_for("resolver-scenario", run_seed)
    # --- workload items -----------------------------------------------------
    n_items = rng.choice([1, 1, 1, 2, 2])
    items = []
    for _ in range(n_items):
        roll = rng.random()
        if roll < 0.72:
            small = rng.random() < 0.5
            if prop == "C06":
                size = rng.randint(5, 14) if small else rng.randint(10, 30)
                n_leaves = rng.randint(3, 9)
                if rng.random() < 0.12:          # intermediate levels with more than ten nodes
                    size, n_leaves = rng.randint(28, 45), rng.randint(11, 18)
                item = gen_mol.build_item(rng, size=size, n_leaves=n_leaves,
                                          mid_levels=rng.choice([0, 1, 1, 2, 2, 2, 3, 3]), weights=rng.random() < 0.3,
                                          hyper=rng.choice([(), (), ("S", "P", "N"), ("S", "P", "N", "exotic")]), explicit_h=rng.random() < 0.25,
                                          components=rng.choice([2, 2, 3]) if rng.random() < 0.12 else 1)
            else:
                big = rng.random() < 0.1
                item = gen_mol.build_item(rng, size=rng.randint(28, 45) if big else (rng.randint(3, 12) if small else rng.randint(8, 30)),
                                          n_leaves=rng.randint(11, 18) if big else None,
                                          weights=rng.random() < 0.4,
                                          hyper=("S", "P", "N") if rng.random() < 0.4 else (), explicit_h=rng.random() < 0.25,
                                          components=rng.choice([2, 2, 3]) if rng.random() < 0.1 else 1)
        elif roll < 0.80:
            item = gen_mol.build_repeat_item(rng)
        elif roll < 0.87:
            item = gen_mol.build_squash_item(rng)
        else:
            item = gen_mol.build_curated_item(rng)
        # the matching convention is part of the input: now and then the label-insensitive one
        item["legacy"] = not (rng.random() < 0.2)
        if not item["legacy"]:
            item["composition"] = False     # labels no longer disambiguate: history oracles only
        items.append(item)
    # --- shared libraries -----------------------------------------------------
    libs = []
    for idx, item in enumerate(items):
        if rng.random() < 0.85:
            libs.append({"id": "L%d" % idx, "item": idx, "perm": rng.random() < 0.3})
    lib_of_item = {lib["item"]: lib["id"] for lib in libs}
    faults_enabled = {f: rng.random() < 0.6 for f in ("abort", "abandon", "scribble", "malformed", "grow", "foreign", "edit")}
    if rng.random() < 0.15:
        faults_enabled = {f: False for f in faults_enabled}
    # --- clients -------------------------------------------------------------
    clients = []
    grown_libs = set()

    def add_client(role, item_idx, script, lib=None):
        clients.append({"id": len(clients), "role": role, "item": item_idx, "lib": lib, "script": script})

    for idx, item in enumerate(items):
        levels = item["n_levels"]
        lib = lib_of_item.get(idx)
        all_names = [n for block in item["blocks"] for n in block_names(block)]
        union_ok = levels >= 2 and len(all_names) == len(set(all_names))
        n_res = rng.randint(2, 4) if n_items == 1 else rng.randint(1, 3)
        drivers = list(DRIVERS)
        rng.shuffle(drivers)
        for k in range(n_res):
            driver = drivers[k % 3] if prop == "C06" or rng.random() < 0.7 else rng.choice(DRIVERS)
            ctor = rng.choice(CTORS)
            if ctor == "dicts" and lib is None and rng.random() < 0.5:
                ctor = "string"
            perm = rng.random() < 0.35
            script = []
            fault = None
            roll = rng.random()
            if faults_enabled["abort"] and roll < 0.30:
                fault = "abort"
            elif faults_enabled["abandon"] and roll < 0.42:
                fault = "abandon"
            elif faults_enabled["scribble"] and roll < 0.54:
                fault = "scribble"
            if fault:
                script += _attempt(rng, ctor, driver, levels, perm, fault, idx, union_ok)
                if rng.random() < 0.3:
                    ctor = rng.choice(CTORS)
            script += _attempt(rng, ctor, driver, levels, perm, None, idx, union_ok)
            if rng.random() < 0.25:
                # a second clean pass over the same library by the same client
                script += _attempt(rng, rng.choice(CTORS), rng.choice(DRIVERS), levels, rng.random() < 0.35, None, idx, union_ok)
            uses_lib = lib if any(o.get("ctor") == "dicts" and not o.get("union") for o in script) else None
            add_client("resolver", idx, script, lib=uses_lib)
        # co-tenants on the shared library
        if lib is not None:
            want_grow = faults_enabled["grow"] and rng.random() < 0.45
            if want_grow:
                level = rng.randrange(levels)
                all_atom = item["last_all_atom"] and level == levels - 1
                script = []
                for g in range(rng.randint(1, 2)):
                    existing = block_names(item["blocks"][level])
                    new_name = "G%d%d" % (idx, g)
                    body_new = rng.choice(["[$]CC[$]", "[>]COC[<]", "[$x]C(=O)O", "[$]c1ccccc1"]) if all_atom \
                        else rng.choice(["[$][#X1][#X2][$]", "[>][#Y1]1[#Y2][#Y3]1[<]", "[#Z1][$q]"])
                    clash = rng.choice(existing)
                    body_clash = "[$]CCCCCC[$]" if all_atom else "[$][#K][#K][#K][$]"
                    parts = [(new_name, body_new), (clash, body_clash)]
                    rng.shuffle(parts)
                    op = {"op": "grow", "level": level, "all_atom": all_atom,
                          "block": "{" + ",".join("#%s=%s" % p for p in parts) + "}", "new": [new_name]}
                    if faults_enabled["abort"] and rng.random() < 0.3:
                        op["abort_at"] = rng.randint(1, 250)
                    script.append(op)
                add_client("grower", idx, script, lib=lib)
                grown_libs.add(lib)
            else:
                if item["last_all_atom"] and rng.random() < 0.4:
                    script = [{"op": "sampler", "seed": rng.randrange(10 ** 6), "target": rng.choice([0, 30, 80, 150]),
                               "abort_at": rng.randint(1, 600) if faults_enabled["abort"] and rng.random() < 0.25 else 0}
                              for _ in range(rng.randint(1, 2))]
                    add_client("sampler", idx, script, lib=lib)
                if rng.random() < 0.4:
                    script = []
                    for _ in range(rng.randint(1, 2)):
                        if rng.random() < 0.6:
                            script.append({"op": "write_frags", "level": rng.randrange(levels)})
                        else:
                            script.append({"op": "write_full"})
                    add_client("writer", idx, script, lib=lib)
        if faults_enabled["edit"] and rng.random() < 0.4:
            level = rng.randrange(levels)
            names = block_names(item["blocks"][level])
            parse = {"op": "parse_lib", "item": idx, "perm": rng.random() < 0.3}
            edits = [{"op": "edit_lib", "level": level, "name": rng.choice(names),
                      "how": rng.choice(["attr", "attr", "bonding", "delete_node_attr"])} for _ in range(rng.randint(1, 3))]
            final = [{"op": "construct", "ctor": "own", "perm": False, "item": idx}] + \
                _driver_ops(rng.choice(DRIVERS), levels) + [{"op": "drop"}]
            script = [parse]
            if rng.random() < 0.5:
                # the owner first resolves with the library as parsed, then edits it and resolves again: the second
                # result must be what a process gives that never resolved before the edit (history-free reference)
                script += [{"op": "construct", "ctor": "own", "perm": False, "item": idx}] + \
                    _driver_ops(rng.choice(DRIVERS), levels) + [{"op": "drop"}]
            script += edits + final
            add_client("editor", idx, script)
            clients[-1]["history_free"] = [parse] + edits + final
    if faults_enabled["malformed"] and rng.random() < 0.5:
        add_client("malformed", None, [{"op": "malformed", "text": rng.choice(MALFORMED)}
                                       for _ in range(rng.randint(1, 3))])
    if faults_enabled["foreign"] and rng.random() < 0.4:
        add_client("foreign", None, [{"op": "foreign_rng", "seed": rng.randrange(10 ** 6)}
                                     for _ in range(rng.randint(1, 3))])
    if faults_enabled["foreign"] and rng.random() < 0.4:
        add_client("helper", None, [{"op": "helper_call", "how": rng.choice(["compute_mass_plain", "rebuild_h_plain", "both", "rebuild_h_keep_bonding"]),
                                     "smiles": rng.choice(["CCO", "c1ccccc1C", "CC(=O)[O-]", "C#N"])}
                                    for _ in range(rng.randint(1, 2))])
    # --- schedule -------------------------------------------------------------
    style = rng.choice(["uniform", "bursty", "roundrobin", "starved", "serial"])
    remaining = {c["id"]: len(c["script"]) for c in clients}
    schedule = []
    current = None
    starved = rng.choice([c["id"] for c in clients])
    rr = 0
    while any(remaining.values()):
        live = [cid for cid in sorted(remaining) if remaining[cid]]
        if style == "uniform":
            cid = rng.choice(live)
        elif style == "bursty":
            if current in live and rng.random() < 0.7:
                cid = current
            else:
                cid = rng.choice(live)
        elif style == "roundrobin":
            cid = live[rr % len(live)]
            rr += 1
            if rng.random() < 0.15:
                cid = rng.choice(live)
        elif style == "starved":
            others = [c for c in live if c != starved]
            cid = rng.choice(others) if others and rng.random() < 0.92 else rng.choice(live)
        else:
            cid = live[0]
        current = cid
        remaining[cid] -= 1
        schedule.append(cid)
    return {"family": "resolver", "prop": prop, "run_seed": run_seed, "debug_logging": env_debug_logging(run_seed), "items": items, "libs": libs,
            "clients": clients, "schedule": schedule, "style": style,
            "faults_enabled": sorted(k for k, v in faults_enabled.items() if v)}


# ---------------------------------------------------------------------------
# execution (inside a fork; calls the code under test)
# ---------------------------------------------------------------------------

def _outcome(exc):
    text = re.sub(r"0x[0-9a-fA-F]+", "0x?", str(exc))[:160]
    return "exc:%s:%s" % (type(exc).__name__, text)


def _lib_snapshot(lib):
    return [{name: dumps(graph) for name, graph in level.items()} for level in lib]


class _Run:
    """State of one execution of a scenario (all clients, or one client solo)."""

    def __init__(self, scenario, only_client=None):
        self.sc = scenario
        self.only = only_client
        self.events = []
        self.violations = []
        self.stats = {}
        self.libs = {}
        self.snap = {}
        self.grow_names = {}
        self.grow_expect = {}
        self.state = {c["id"]: {"pc": 0} for c in scenario["clients"]}

    def bump(self, key, n=1):
        self.stats[key] = self.stats.get(key, 0) + n

    def violate(self, oracle, detail, event=None):
        self.violations.append({"oracle": oracle, "detail": detail, "event": event})

    # -- setup --------------------------------------------------------------
    def setup(self):
        from cgsmiles.resolve import MoleculeResolver
        used = None
        if self.only is not None:
            client = self.sc["clients"][self.only]
            used = {client["lib"]} if client.get("lib") else set()
        for lib in self.sc["libs"]:
            if used is not None and lib["id"] not in used:
                continue
            item = self.sc["items"][lib["item"]]
            blocks = item["perm_blocks"] if lib["perm"] else item["blocks"]
            self.libs[lib["id"]] = MoleculeResolver.read_fragment_strings(list(blocks), last_all_atom=item["last_all_atom"])
            self.snap[lib["id"]] = _lib_snapshot(self.libs[lib["id"]])
            self.grow_names[lib["id"]] = {}

    # -- library invariant ----------------------------------------------------
    def check_libs(self, seq):
        for lid, lib in self.libs.items():
            base = self.snap[lid]
            if len(lib) != len(base):
                self.violate("C12.library", "shared library %s has %d levels, had %d at creation" % (lid, len(lib), len(base)), seq)
                continue
            for level, (now, then) in enumerate(zip(lib, base)):
                for name, dump in then.items():
                    if name not in now:
                        self.violate("C12.library", "fragment %s vanished from level %d of shared library %s" % (name, level, lid), seq)
                    elif dumps(now[name]) != dump:
                        self.violate("C12.library", "fragment %s at level %d of shared library %s was modified" % (name, level, lid), seq)
                allowed = self.grow_names[lid].get(level, {})
                for name in now:
                    if name in then:
                        continue
                    if name not in allowed:
                        self.violate("C12.library", "unexpected fragment %s appeared at level %d of shared library %s" % (name, level, lid), seq)
                    elif allowed[name] is not None and digest(now[name]) != allowed[name]:
                        self.violate("C12.library", "grown fragment %s at level %d of library %s is not what a completed call stores" % (name, level, lid), seq)

    # -- one op ---------------------------------------------------------------
    def step(self, cid, seq):
        from .seams import AbortInjector, SimInterrupt
        client = self.sc["clients"][cid]
        st = self.state[cid]
        op = client["script"][st["pc"]]
        st["pc"] += 1
        event = {"seq": seq, "cid": cid, "op": op["op"]}
        inj = None
        abort_at = int(op.get("abort_at") or 0)
        try:
            if abort_at:
                inj = AbortInjector(abort_at)
                with inj:
                    result = self.do_op(client, st, op, event)
            else:
                result = self.do_op(client, st, op, event)
            event["out"] = "ok"
            if result is not None:
                event["dig"] = result
        except SimInterrupt as exc:
            event["out"] = "aborted@" + str(exc)
            st["poisoned"] = True
        except StopIteration:
            event["out"] = "stop"
        except Exception as exc:  # noqa - whatever the library raises is an outcome
            if isinstance(exc, HarnessError) or raised_in_harness(exc):
                raise HarnessError("harness bug in op %s: %s: %s" % (op["op"], type(exc).__name__, exc))
            event["out"] = _outcome(exc)
        finally:
            if inj is not None:
                import sys
                sys.settrace(None)
                event["armed"] = abort_at
                event["fired"] = bool(inj.fired)
        self.events.append(event)
        self.check_libs(seq)
        return event

    def _item(self, client, op):
        idx = op.get("item", client.get("item"))
        return self.sc["items"][idx]

    def do_op(self, client, st, op, event):
        from cgsmiles.resolve import MoleculeResolver
        from cgsmiles.read_cgsmiles import read_cgsmiles
        from cgsmiles.read_fragments import read_fragments
        from . import monitors
        kind = op["op"]
        if kind == "construct":
            item = self._item(client, op)
            blocks = item["perm_blocks"] if op.get("perm") else item["blocks"]
            laa = item["last_all_atom"]
            legacy = item.get("legacy", True)
            st["item"] = item
            st["level"] = 0
            st["returned"] = []
            st["prev"] = None
            st["iter"] = None
            st["last"] = None
            st["passed_lib"] = None
            st["staged"] = False
            st["alias"] = False
            ctor = op["ctor"]
            if ctor == "string":
                st["res"] = MoleculeResolver.from_string(".".join([item["base"]] + list(blocks)), last_all_atom=laa, legacy=legacy)
            elif ctor == "graph":
                # a fresh base graph object per construction: resolve() annotates the caller's graph by design,
                # so a reused (already annotated, possibly scribbled) object is not "the same input"
                if op.get("staged"):
                    done = op["staged"]
                    base_graph = MoleculeResolver.from_string(".".join([item["base"]] + list(blocks[:done])), last_all_atom=False,
                                                              legacy=legacy).resolve_all()[1]
                    st["res"] = MoleculeResolver.from_graph(".".join(blocks[done:]), base_graph, last_all_atom=laa, legacy=legacy)
                    st["level"] = done
                    st["staged"] = True
                    self.bump("staged_constructions")
                    return None
                st["staged"] = False
                base_graph = read_cgsmiles(item["base"])
                st["res"] = MoleculeResolver.from_graph(".".join(blocks), base_graph, last_all_atom=laa, legacy=legacy)
            elif ctor == "dicts" and op.get("union"):
                # one dict holding the fragments of every level, handed in once per level
                own = MoleculeResolver.read_fragment_strings(list(blocks), last_all_atom=laa)
                union = {}
                for level_dict in own:
                    union.update(level_dict)
                st["res"] = MoleculeResolver.from_fragment_dicts(item["base"], [union] * len(own), last_all_atom=laa, legacy=legacy)
            elif ctor == "dicts":
                lib = self.libs.get(client.get("lib"))
                if lib is None:
                    lib = MoleculeResolver.read_fragment_strings(list(blocks), last_all_atom=laa)
                    st["passed_lib"] = (lib, _lib_snapshot(lib))
                base = item["base"]
                first = lib[0]
                if op.get("alias") and not any(name + "q" in first for name in first):
                    import re
                    for name in first:
                        base = re.sub(r"\[#" + re.escape(name) + r"(?=[\];])", "[#" + name + "q", base)
                    lib = [{name + "q": graph for name, graph in first.items()}] + list(lib[1:])
                    st["alias"] = True
                    self.bump("alias_constructions")
                st["res"] = MoleculeResolver.from_fragment_dicts(base, lib, last_all_atom=laa, legacy=legacy)
            elif ctor == "own":
                lib = st["own_lib"]
                st["res"] = MoleculeResolver.from_fragment_dicts(item["base"], lib, last_all_atom=laa, legacy=legacy)
            else:
                raise HarnessError("unknown ctor %r" % ctor)
            return None
        if kind in ("resolve", "iter_next", "resolve_all"):
            res = st["res"]
            item = st["item"]
            if kind == "resolve":
                coarse, fine = res.resolve()
                st["level"] += 1
            elif kind == "iter_next":
                coarse, fine = next(st["iter"])
                st["level"] += 1
            else:
                coarse, fine = res.resolve_all()
                st["level"] = item["n_levels"]
            level = st["level"]
            event["level"] = level
            if st.get("staged"):
                event["staged"] = True
            if st.get("alias"):
                event["alias"] = True
            event["item"] = op.get("item", client.get("item"))
            st["last"] = (coarse, fine)
            all_atom = item["last_all_atom"] and level == item["n_levels"]
            found = []
            shared_here = item.get("shared_atoms", False) and "!" in item["blocks"][min(level, len(item["blocks"])) - 1]
            # (a fragment stored under another name in the caller's dict keeps the name it was created with)
            found += monitors.numbering(coarse, fine, all_atom, shared_here, names_agree=not (st.get("alias") and level == 1))
            found += monitors.mapping(coarse, fine)
            if st["prev"] is not None and kind != "resolve_all":
                found += monitors.chaining(st["prev"], coarse)
            if all_atom and not shared_here:
                from .valence import check_valence
                explicit_h = "[H" in item["multi"] or "H;" in item["multi"] or "H]" in item["multi"]
                found += [("C09.valence", d) for d in check_valence(fine, explicit_h=explicit_h, stats=self.stats)]
                self.bump("valence_graphs")
            for oracle, detail in found:
                self.violate(oracle, detail, event["seq"])
            # graphs handed out at earlier steps are inspected again after every later step (list(resolve_iter())
            # is ordinary use): the membership they recorded must still be what it was when they were returned
            for old_level, old_coarse, old_snap in st.get("returned", []):
                now = monitors.membership_snapshot(old_coarse)
                if now != old_snap:
                    self.violate("C06.mapping", "the coarse graph returned at step %d changed its fragment membership after step %d "
                                 "(members or their names differ from what was returned)" % (old_level, level), event["seq"])
                    break
            st.setdefault("returned", []).append((level, coarse, monitors.membership_snapshot(coarse)))
            st["prev"] = monitors.summary(fine)
            event["io"] = sha(jdump(iteration_order(fine)))
            if st.get("passed_lib") is not None:
                lib, snap = st["passed_lib"]
                if _lib_snapshot(lib) != snap:
                    self.violate("C12.library", "library passed to from_fragment_dicts was modified by resolve", event["seq"])
            return [digest(coarse), digest(fine)]
        if kind == "iter_open":
            st["iter"] = st["res"].resolve_iter()
            return None
        if kind == "iter_close":
            if st.get("iter") is not None:
                st["iter"].close()
            return None
        if kind == "drop":
            for key in ("res", "iter", "last", "prev"):
                st[key] = None
            st["poisoned"] = False
            return None
        if kind == "scribble":
            coarse, fine = st["last"]
            how = op["how"]
            if how == 0:
                for node in list(fine.nodes):
                    data = fine.nodes[node]
                    for key in ("bonding", "mapping"):
                        if isinstance(data.get(key), list):
                            data[key].clear()
                    if isinstance(data.get("fragid"), list):
                        data["fragid"].append(99)
                    data["element"] = "Xx"
            elif how == 1:
                for node in list(fine.nodes)[::2]:
                    fine.remove_node(node)
                for node in list(coarse.nodes)[1:]:
                    coarse.remove_node(node)
            elif how == 2:
                for node in coarse.nodes:
                    sub = coarse.nodes[node].get("graph")
                    if sub is not None:
                        for n2 in sub.nodes:
                            for key, val in list(sub.nodes[n2].items()):
                                if isinstance(val, list):
                                    val.append("scribble")
                                elif isinstance(val, dict):
                                    val["scribble"] = 1
                            sub.nodes[n2]["atomname"] = "ZZ"
                        sub.clear()
                    coarse.nodes[node]["fragname"] = "scribbled"
            else:
                for u, v in fine.edges:
                    fine.edges[u, v]["order"] = 7
                    fine.edges[u, v]["bonding"] = ("$zz1", "$zz1")
                for node in fine.nodes:
                    for key, val in list(fine.nodes[node].items()):
                        if isinstance(val, list):
                            val.extend([0, "x"])
            st["poisoned"] = True
            return None
        if kind == "malformed":
            res = MoleculeResolver.from_string(op["text"])
            coarse, fine = res.resolve_all()
            return [digest(coarse), digest(fine)]
        if kind == "helper_call":
            # another part of the host program uses the package's public helpers on plain pysmiles graphs
            import pysmiles
            from cgsmiles.pysmiles_utils import rebuild_h_atoms, compute_mass
            out = []
            if op["how"] in ("compute_mass_plain", "both"):
                out.append(repr(round(compute_mass(pysmiles.read_smiles(op["smiles"])), 4)))
            if op["how"] in ("rebuild_h_plain", "both"):
                graph = pysmiles.read_smiles(op["smiles"])
                rebuild_h_atoms(graph)
                out.append(str(len(graph)))
            if op["how"] == "rebuild_h_keep_bonding":
                # the documented keep_bonding option, used by a host program on a fragment of its own
                graph = pysmiles.read_smiles(op["smiles"])
                graph.nodes[0]["bonding"] = ["$1"]
                rebuild_h_atoms(graph, keep_bonding=True)
                out.append(str(len(graph)))
            return [sha(jdump(out))]
        if kind == "foreign_rng":
            import random
            import numpy as np
            random.seed(op["seed"])
            np.random.seed(op["seed"] % (2 ** 32))
            return [sha(repr(random.random()))]
        if kind == "grow":
            lib = self.libs[client["lib"]]
            level = op["level"]
            names = self.grow_names[client["lib"]].setdefault(level, {})
            for name in op["new"]:
                names[name] = (op.get("expect") or {}).get(name)
            out = read_fragments(op["block"], all_atom=op["all_atom"], fragment_dict=lib[level])
            if out is not lib[level]:
                self.violate("C12.library", "read_fragments(fragment_dict=...) did not return the dict it was given", event["seq"])
            return [digest({n: out[n] for n in op["new"] if n in out})]
        if kind == "sampler":
            from cgsmiles.sample import MoleculeSampler
            lib = self.libs[client["lib"]]
            item = self._item(client, op)
            sampler = MoleculeSampler(lib[-1], polymer_reactivities={}, all_atom=True, seed=op["seed"])
            mol = sampler.sample(op["target"])
            return [digest(mol), sha(jdump(sorted((k, repr(v)) for k, v in sampler.fragment_masses.items())))]
        if kind == "write_frags":
            from cgsmiles.write_cgsmiles import write_cgsmiles_fragments
            lib = self.libs[client["lib"]]
            item = self._item(client, op)
            level = op["level"]
            all_atom = item["last_all_atom"] and level == item["n_levels"] - 1
            return [sha(write_cgsmiles_fragments(lib[level], smiles_format=all_atom))]
        if kind == "write_full":
            from cgsmiles.write_cgsmiles import write_cgsmiles
            lib = self.libs[client["lib"]]
            item = self._item(client, op)
            return [sha(write_cgsmiles(read_cgsmiles(item["base"]), lib, last_all_atom=item["last_all_atom"]))]
        if kind == "parse_lib":
            item = self._item(client, op)
            blocks = item["perm_blocks"] if op.get("perm") else item["blocks"]
            st["own_lib"] = MoleculeResolver.read_fragment_strings(list(blocks), last_all_atom=item["last_all_atom"])
            return [digest(st["own_lib"])]
        if kind == "edit_lib":
            lib = st["own_lib"]
            graph = lib[op["level"]][op["name"]]
            node = sorted(graph.nodes)[0]
            how = op["how"]
            if how == "attr":
                graph.nodes[node]["weight"] = 2.5
                graph.nodes[node]["note"] = ["edited"]
            elif how == "bonding":
                for n2 in graph.nodes:
                    if graph.nodes[n2].get("bonding"):
                        graph.nodes[n2]["bonding"].append("$edit1")
                        break
            else:
                graph.nodes[node].pop("w", None)
                graph.nodes[node]["charge"] = graph.nodes[node].get("charge", 0)
            return [digest(lib)]
        raise HarnessError("unknown op %r" % kind)

    def run(self):
        import random
        import numpy as np
        tag = "history" if self.only is None else ("solo", self.only)
        random.seed(H("global-random", self.sc["run_seed"], tag))
        np.random.seed(H("global-numpy", self.sc["run_seed"], tag) % 2 ** 32)
        self.setup()
        seq = 0
        for cid in self.sc["schedule"]:
            if self.only is not None and cid != self.only:
                continue
            self.step(cid, seq)
            seq += 1
        return {"events": self.events, "violations": self.violations, "stats": self.stats}


def run_scenario(scenario, only_client=None):
    run = _Run(scenario, only_client)
    if only_client is None:
        apply_env(scenario, run.stats)
    return run.run()


# ---------------------------------------------------------------------------
# per-item pristine reference + reference by construction
# ---------------------------------------------------------------------------

def item_reference(item):
    """
    Pristine solo resolution of one item through from_string + resolve(),
    plus the composition oracle (multi-level vs flattened vs constructed
    molecule) and line counts used to place aborts. Runs in its own fork.
    """
    from cgsmiles.resolve import MoleculeResolver
    from cgsmiles.read_fragments import read_fragments
    from .seams import AbortInjector
    from . import graphcmp
    out = {"levels": [], "violations": [], "lines": {}, "error": None}
    laa = item["last_all_atom"]
    try:
        with AbortInjector(0) as inj:
            res = MoleculeResolver.from_string(item["multi"], last_all_atom=laa, legacy=item.get("legacy", True))
        out["lines"]["construct"] = inj.count
        fine = None
        total = 0
        for level in range(item["n_levels"]):
            with AbortInjector(0) as inj:
                coarse, fine = res.resolve()
            out["lines"]["resolve%d" % (level + 1)] = inj.count
            total += inj.count
            out["levels"].append([digest(coarse), digest(fine)])
            if item["family"] == "decomp" and item.get("composition") and item.get("constructed", True) and level < item["n_levels"] - 1:
                want = item["levels"][level + 1]
                names = sorted(fine.nodes[n].get("atomname") for n in fine.nodes)
                if names != sorted(want["names"]):
                    out["violations"].append({"oracle": "C06.composition",
                                              "detail": "level %d node names %r differ from the grouping %r" % (level + 1, names[:10], sorted(want["names"])[:10])})
                else:
                    got = sorted(sorted([fine.nodes[u]["atomname"], fine.nodes[v]["atomname"]]) + [float(o)]
                                 for u, v, o in fine.edges(data="order"))
                    exp = sorted(sorted([want["names"][a], want["names"][b]]) + [float(o)] for a, b, o in want["edges"])
                    if got != exp:
                        out["violations"].append({"oracle": "C06.composition",
                                                  "detail": "level %d edges/orders differ from the grouping: %r vs %r" % (level + 1, got[:6], exp[:6])})
        out["lines"]["resolve_all"] = total
        if item.get("composition") and fine is not None:
            flat = MoleculeResolver.from_string(item["flat"], last_all_atom=laa)
            _, fine_flat = flat.resolve_all()
            if laa:
                a, prob_a = graphcmp.heavy_skeleton(fine)
                b, _ = graphcmp.heavy_skeleton(fine_flat)
            else:
                a = graphcmp.named_graph(fine, "atomname")
                b = graphcmp.named_graph(fine_flat, "atomname")
                prob_a = []
            ok, why = graphcmp.isomorphic(a, b)
            if not ok:
                out["violations"].append({"oracle": "C06.composition",
                                          "detail": "multi-level result is not isomorphic to the flattened two-level result: " + why})
            if item.get("constructed", True) and "mol" in item:
                ok, why = graphcmp.isomorphic(a, graphcmp.expected_skeleton(item["mol"]))
            else:
                ok, why = True, "not compared"
            if not ok:
                out["violations"].append({"oracle": "C06.composition",
                                          "detail": "multi-level result is not isomorphic to the constructed molecule: " + why})
            for problem in prob_a:
                out["violations"].append({"oracle": "C09.valence", "detail": "hydrogen problem %r" % (problem,)})
    except Exception as exc:  # noqa
        out["error"] = _outcome(exc)
        if item.get("composition") and item.get("flat"):
            # the layered string cannot be resolved: is its flattened two-level form resolvable?
            try:
                MoleculeResolver.from_string(item["flat"], last_all_atom=laa, legacy=item.get("legacy", True)).resolve_all()
                out["violations"].append({"oracle": "C06.composition",
                                          "detail": "the multi-level string raises %s while its flattened two-level form resolves" % out["error"][:120]})
            except Exception:  # noqa - both fail alike: outside the workload
                pass
    return out


def grow_expectations(op):
    from cgsmiles.read_fragments import read_fragments
    try:
        frags = read_fragments(op["block"], all_atom=op["all_atom"])
        return {name: digest(frags[name]) for name in op["new"] if name in frags}
    except Exception:  # noqa
        return {}


def admit_items(items):
    from . import admit
    return [admit.admit(item) for item in items]


# ---------------------------------------------------------------------------
# orchestration of one run (in the worker; every call into cgsmiles is forked)
# ---------------------------------------------------------------------------

def _finalise(scenario, refs):
    """Turn abort fractions into explicit line indices (needs measured line counts)."""
    from .procs import fork_call
    sc = scenario
    for client in sc["clients"]:
        level = 0
        for op in client["script"]:
            if op["op"] == "construct":
                level = 0
            if op["op"] in ("resolve", "iter_next"):
                level += 1
            if "abort_frac" in op and "abort_at" not in op:
                item_idx = op.get("item", client.get("item"))
                lines = refs[item_idx]["lines"] if item_idx is not None else {}
                if op["op"] == "construct":
                    n = lines.get("construct", 200)
                elif op["op"] in ("resolve", "iter_next"):
                    n = lines.get("resolve%d" % level, 300)
                elif op["op"] == "resolve_all":
                    n = lines.get("resolve_all", 600)
                else:
                    n = 1
                op["abort_at"] = 1 + int(op["abort_frac"] * max(1, n - 1))
            if op["op"] == "grow" and "expect" not in op:
                op["expect"] = fork_call(grow_expectations, (op,), timeout=60)
    sc["finalised"] = True
    return sc


def execute(scenario):
    """
    Returns a result dict: status ('ok' | 'rejected'), violations, digest of
    the event log, statistics. Pure function of (scenario, code under test).
    """
    from .procs import fork_call
    sc = scenario
    result = {"status": "ok", "violations": [], "stats": {}, "digest": None}
    stats = result["stats"]
    if not sc.get("finalised"):
        # Admission gates only the oracles that compare with what the *generator* meant (constructed molecule,
        # per-level names/edges). An item whose pieces the readers understand differently still takes part in
        # every other oracle - in particular multi-level vs flattened string, which needs no expectation.
        reasons = fork_call(admit_items, (sc["items"],), timeout=120)
        for item, reason in zip(sc["items"], reasons):
            if reason:
                item["constructed"] = False
                item["admission_mismatch"] = reason[:200]
    refs = sc.get("refs")
    if refs is None:
        refs = [fork_call(item_reference, (item,), timeout=120) for item in sc["items"]]
    if any(ref["error"] for ref in refs):
        found = [dict(v, event=None, where="item %d pristine reference" % i) for i, ref in enumerate(refs) for v in ref["violations"]]
        if found:
            result["violations"] = found
            result["digest"] = sha(jdump(found))
            result["sample"] = {"strings": [item["multi"] for item in sc["items"]]}
            sc["finalised"] = True
            result["scenario"] = sc
            return result
    if any(ref["error"] for ref in refs) and not sc.get("finalised"):
        # not resolvable in a pristine process: outside the workload (outcome, not a verdict)
        result["status"] = "rejected"
        result["reject_reasons"] = ["pristine resolution raised " + str(ref["error"]) for ref in refs if ref["error"]]
        return result
    if not sc.get("finalised"):
        sc = _finalise(sc, refs)
        result["scenario"] = sc
    for idx, ref in enumerate(refs):
        for viol in ref["violations"]:
            result["violations"].append(dict(viol, event=None, where="item %d pristine reference" % idx))
    solos = {}
    for client in sc["clients"]:
        solos[client["id"]] = fork_call(run_scenario, (sc, client["id"]), timeout=180)
    sim = fork_call(run_scenario, (sc, None), timeout=300)
    for viol in sim["violations"]:
        result["violations"].append(dict(viol, where="simulated run"))
    for cid, solo in solos.items():
        for viol in solo["violations"]:
            result["violations"].append(dict(viol, where="solo reference of client %d" % cid))
    # -- isolation: every client's events equal its solo reference -------------
    by_client = {}
    for event in sim["events"]:
        by_client.setdefault(event["cid"], []).append(event)
    keys = ("op", "out", "dig", "io", "level")
    for client in sc["clients"]:
        cid = client["id"]
        mine = by_client.get(cid, [])
        alone = solos[cid]["events"]
        if len(mine) != len(alone):
            result["violations"].append({"oracle": "C06.isolation C12.isolation", "event": None, "where": "client %d" % cid,
                                         "detail": "client executed %d ops interleaved but %d ops alone" % (len(mine), len(alone))})
            continue
        for ev_sim, ev_solo in zip(mine, alone):
            if any(ev_sim.get(k) != ev_solo.get(k) for k in keys):
                result["violations"].append({
                    "oracle": "C06.isolation C12.isolation", "event": ev_sim["seq"], "where": "client %d (%s)" % (cid, client["role"]),
                    "detail": "op %s gave %s/%s interleaved but %s/%s alone in a pristine process"
                              % (ev_sim["op"], ev_sim.get("out"), ev_sim.get("dig"), ev_solo.get("out"), ev_solo.get("dig"))})
                break
    # -- history-free reference of library owners: earlier resolutions must leave no trace ----------
    for client in sc["clients"]:
        if not client.get("history_free") or len(client["history_free"]) == len(client["script"]):
            continue
        reduced = copy.deepcopy(sc)
        reduced["clients"][client["id"]]["script"] = copy.deepcopy(client["history_free"])
        reduced["schedule"] = [client["id"]] * len(client["history_free"])
        free = fork_call(run_scenario, (reduced, client["id"]), timeout=180)

        def last_attempt(events):
            out = []
            for ev in events:
                if ev["op"] == "construct":
                    out = []
                if ev["op"] in ("resolve", "iter_next", "resolve_all"):
                    out.append((ev.get("level"), ev.get("out"), ev.get("dig")))
            return out
        mine = last_attempt(by_client.get(client["id"], []))
        want = last_attempt(free["events"])
        if mine != want:
            result["violations"].append({
                "oracle": "C12.same-input C06.isolation", "event": None, "where": "client %d (library owner)" % client["id"],
                "detail": "after editing its own library the owner resolved %r, a process that never resolved before the edit gives %r"
                          % (mine[-1:] , want[-1:])})
    # -- agreement with the pristine per-item reference ---------------------------
    for client in sc["clients"]:
        if client["role"] != "resolver":
            continue
        script = client["script"]
        for ev, op in zip(by_client.get(client["id"], []), script):
            if op["op"] not in ("resolve", "iter_next", "resolve_all", "construct", "iter_open"):
                continue
            if op.get("abort_at"):
                continue
            item_idx = op.get("item", client.get("item"))
            item = sc["items"][item_idx]
            ref = refs[item_idx]
            if op.get("expect_stop"):
                if ev["out"] != "stop":
                    result["violations"].append({"oracle": "C06.progress", "event": ev["seq"], "where": "client %d" % client["id"],
                                                 "detail": "resolve_iter yielded more than %d levels (%s)" % (item["n_levels"], ev["out"])})
                continue
            if ev["out"] != "ok":
                result["violations"].append({"oracle": "C06.progress C12.same-input", "event": ev["seq"], "where": "client %d" % client["id"],
                                             "detail": "op %s ended %s although the same input resolves in a pristine process" % (op["op"], ev["out"])})
                continue
            if "dig" in ev:
                level = ev.get("level")
                if op["op"] == "resolve_all" and level != item["n_levels"]:
                    result["violations"].append({"oracle": "C06.progress", "event": ev["seq"], "where": "client %d" % client["id"],
                                                 "detail": "resolve_all stopped at level %r of %d" % (level, item["n_levels"])})
                    continue
                want = ref["levels"][level - 1] if 1 <= level <= len(ref["levels"]) else None
                got = ev["dig"]
                if ev.get("alias"):
                    continue        # other residue names by construction: judged by the monitors and the library oracles
                if ev.get("staged") and want is not None:
                    # the coarse graph of a staged resolver is the caller's own graph (it carries what the first
                    # resolver left on it): the molecule is what has to be identical
                    want, got = want[1:], got[1:]
                if op["op"] == "resolve_all" and want is not None:
                    # the coarse graph handed out by resolve_all has seen the same history as by stepping
                    pass
                if want is None or got != want:
                    ctor = _ctor_of(script, op)
                    result["violations"].append({
                        "oracle": "C06.drivers C12.same-input", "event": ev["seq"], "where": "client %d" % client["id"],
                        "detail": "level %r via %s/%s%s gave %s, pristine from_string+resolve() gave %s"
                                  % (level, ctor.get("ctor"), op["op"], " (permuted definitions)" if ctor.get("perm") else "", got, want)})
    # -- statistics --------------------------------------------------------------
    ops = sim["events"]
    stats["ops"] = len(ops)
    stats["clients"] = len(sc["clients"])
    stats["items"] = len(sc["items"])
    stats["interleaving"] = sha(jdump([(e["cid"], e["op"]) for e in ops]))
    stats["shared_clients"] = sum(1 for c in sc["clients"] if c.get("lib"))
    for e in ops:
        key = "op:" + e["op"]
        stats[key] = stats.get(key, 0) + 1
        if e.get("armed"):
            stats["fault:abort:armed"] = stats.get("fault:abort:armed", 0) + 1
            if e.get("fired"):
                stats["fault:abort:fired"] = stats.get("fault:abort:fired", 0) + 1
                stats["abort@" + e["out"].split("@")[1].split(":")[0]] = stats.get("abort@" + e["out"].split("@")[1].split(":")[0], 0) + 1
        if e["op"] == "scribble":
            stats["fault:scribble:fired"] = stats.get("fault:scribble:fired", 0) + 1
        if e["op"] == "malformed":
            stats["fault:malformed:fired"] = stats.get("fault:malformed:fired", 0) + 1
        if e["op"] == "grow":
            stats["fault:grow:fired"] = stats.get("fault:grow:fired", 0) + 1
        if e["op"] == "foreign_rng":
            stats["fault:foreign-rng:fired"] = stats.get("fault:foreign-rng:fired", 0) + 1
        if e["op"] == "helper_call":
            stats["fault:foreign-helper-call:fired"] = stats.get("fault:foreign-helper-call:fired", 0) + 1
        if e["op"] == "iter_close":
            stats["fault:abandon:fired"] = stats.get("fault:abandon:fired", 0) + 1
        if e["op"] == "edit_lib":
            stats["fault:edit-own-library:fired"] = stats.get("fault:edit-own-library:fired", 0) + 1
    for key, value in sim["stats"].items():
        stats[key] = stats.get(key, 0) + value
    stats["levels"] = max(item["n_levels"] for item in sc["items"])
    for item in sc["items"]:
        stats["levels:%d" % item["n_levels"]] = stats.get("levels:%d" % item["n_levels"], 0) + 1
        if item.get("admission_mismatch"):
            stats["admission_mismatch"] = stats.get("admission_mismatch", 0) + 1
        if not item.get("legacy", True):
            stats["items_label_insensitive_convention"] = stats.get("items_label_insensitive_convention", 0) + 1
        if item.get("composition"):
            stats["composition_items"] = stats.get("composition_items", 0) + 1
            stats["composition_atoms"] = stats.get("composition_atoms", 0) + len(item.get("mol", {}).get("atoms", []))
    ctor_driver = {}
    for client in sc["clients"]:
        ctor = None
        for op in client["script"]:
            if op["op"] == "construct":
                ctor = op["ctor"] + ("+perm" if op.get("perm") else "") + ("+staged" if op.get("staged") else "") + ("+union" if op.get("union") else "") + ("+alias" if op.get("alias") else "")
            elif op["op"] in ("resolve", "iter_next", "resolve_all") and ctor:
                key = "path:%s/%s" % (ctor, {"resolve": "manual", "iter_next": "iter-after-manual" if op.get("after_manual") else "iter", "resolve_all": "all"}[op["op"]])
                ctor_driver[key] = 1
    for key in ctor_driver:
        stats[key] = stats.get(key, 0) + 1
    stats["families"] = sorted({item["family"] + "/" + item["kind"] for item in sc["items"]})
    result["digest"] = sha(jdump([[e.get(k) for k in ("seq", "cid", "op", "out", "dig", "io", "level")] for e in ops]))
    result["nontrivial"] = bool(stats["shared_clients"] >= 2 or any(k.startswith("fault:") and k.endswith(":fired") for k in stats))
    result["sample"] = {"strings": [item["multi"] for item in sc["items"]],
                        "schedule": sc["schedule"], "style": sc["style"],
                        "clients": [{"role": c["role"], "ops": [o["op"] + (("@%d" % o["abort_at"]) if o.get("abort_at") else "") for o in c["script"]]}
                                    for c in sc["clients"]]}
    return result


def _ctor_of(script, op):
    last = {}
    for candidate in script:
        if candidate["op"] == "construct":
            last = candidate
        if candidate is op:
            break
    return last


# ---------------------------------------------------------------------------
# minimisation candidates
# ---------------------------------------------------------------------------

def shrink_candidates(scenario):
    """Yield simpler scenarios (explicit data; no generator involved)."""
    sc = scenario
    clients = sc["clients"]
    # drop a whole client
    for victim in range(len(clients)):
        if len(clients) <= 1:
            break
        new = copy.deepcopy(sc)
        new["clients"] = [c for c in new["clients"] if c["id"] != victim]
        remap = {c["id"]: k for k, c in enumerate(new["clients"])}
        new["schedule"] = [remap[c] for c in new["schedule"] if c in remap]
        for c in new["clients"]:
            c["id"] = remap[c["id"]]
        yield new
    # serialise the schedule
    serial = sorted(sc["schedule"])
    if serial != sc["schedule"]:
        new = copy.deepcopy(sc)
        new["schedule"] = serial
        yield new
    # drop one attempt (construct .. drop) or a single non-structural op of a client
    for client in clients:
        script = client["script"]
        starts = [k for k, o in enumerate(script) if o["op"] == "construct"]
        for s in starts:
            end = s
            while end < len(script) and script[end]["op"] != "drop":
                end += 1
            if end - s + 1 >= len(script):
                continue
            if client.get("history_free"):
                continue
            new = copy.deepcopy(sc)
            nscript = script[:s] + script[end + 1:]
            new["clients"][client["id"]]["script"] = copy.deepcopy(nscript)
            new["schedule"] = _reschedule(new)
            yield new
        for k, op in enumerate(script):
            if op["op"] in ("grow", "sampler", "write_frags", "write_full", "malformed", "foreign_rng", "helper_call", "edit_lib", "scribble") and len(script) > 1:
                new = copy.deepcopy(sc)
                del new["clients"][client["id"]]["script"][k]
                new["schedule"] = _reschedule(new)
                yield new
            if op.get("abort_at"):
                new = copy.deepcopy(sc)
                nop = new["clients"][client["id"]]["script"][k]
                nop.pop("abort_at", None)
                nop.pop("abort_frac", None)
                yield new
    # drop an unused item / library is not attempted: ids are positional


def _reschedule(sc):
    """Keep relative order of the old schedule, truncated/extended to script lengths."""
    need = {c["id"]: len(c["script"]) for c in sc["clients"]}
    out = []
    for cid in sc["schedule"]:
        if need.get(cid, 0) > 0:
            out.append(cid)
            need[cid] -= 1
    for cid in sorted(need):
        out.extend([cid] * need[cid])
    return out


# ---------------------------------------------------------------------------
# exhaustive abort-point enumeration on small items (thorough tier, C12)
# ---------------------------------------------------------------------------

def enum_item(item_seed):
    rng = rng_for("abort-enum-item", item_seed)
    return gen_mol.build_item(rng, kind=rng.choice(["atomistic", "atomistic", "coarse"]), size=rng.randint(3, 8),
                              n_leaves=rng.randint(2, 3), mid_levels=rng.choice([0, 1]))


def enum_scenario(item, k, which):
    """The same experiment as an ordinary resolver scenario (used as replay file)."""
    if which == "resolve_all":
        script = [{"op": "construct", "ctor": "dicts", "perm": False, "item": 0}, {"op": "resolve_all", "abort_at": k}, {"op": "drop"},
                  {"op": "construct", "ctor": "dicts", "perm": False, "item": 0}, {"op": "resolve_all"}, {"op": "drop"}]
        role = "resolver"
    else:
        level = item["n_levels"] - 1
        script = [{"op": "grow", "level": level, "all_atom": item["last_all_atom"],
                   "block": _grow_block(item), "new": ["GNEW1", "GNEW2"], "abort_at": k}]
        role = "grower"
    clients = [{"id": 0, "role": role, "item": 0, "lib": "L0", "script": script}]
    if which != "resolve_all":
        clients.append({"id": 1, "role": "resolver", "item": 0, "lib": "L0",
                        "script": [{"op": "construct", "ctor": "dicts", "perm": False, "item": 0}, {"op": "resolve_all"}, {"op": "drop"}]})
    schedule = [c["id"] for c in clients for _ in c["script"]]
    return {"family": "resolver", "prop": "C12", "run_seed": H("enum", item["multi"], k, which), "items": [item],
            "libs": [{"id": "L0", "item": 0, "perm": False}], "clients": clients, "schedule": schedule, "style": "serial",
            "faults_enabled": ["abort"], "enum": {"k": k, "which": which}}


def _grow_block(item):
    if item["last_all_atom"]:
        return "{#GNEW1=[$]CC(=O)O[$],#GNEW2=[>]c1ccccc1C[<]}"
    return "{#GNEW1=[$][#X1][#X2]1[#X3][#X4]1[$],#GNEW2=[>][#Y1]=[#Y2][<]}"


def enum_probe(item):
    """Line counts of the enumerated ops on a pristine process + reference digest."""
    from cgsmiles.resolve import MoleculeResolver
    from cgsmiles.read_fragments import read_fragments
    from .seams import AbortInjector
    from . import admit
    reason = admit.admit(item)
    if reason:
        return {"rejected": reason}
    lib = MoleculeResolver.read_fragment_strings(list(item["blocks"]), last_all_atom=item["last_all_atom"])
    res = MoleculeResolver.from_fragment_dicts(item["base"], lib, last_all_atom=item["last_all_atom"])
    with AbortInjector(0) as inj:
        coarse, fine = res.resolve_all()
    lines_resolve = inj.count
    with AbortInjector(0) as inj:
        read_fragments(_grow_block(item), all_atom=item["last_all_atom"], fragment_dict=lib[-1])
    return {"resolve_all": lines_resolve, "grow": inj.count, "ref": [digest(coarse), digest(fine)]}


def enum_points(item, which, ks, ref):
    """
    For every k: pristine fork, shared library, abort the op at the k-th cgsmiles
    line, then (1) the library must be byte-identical to its snapshot (grown
    names: absent or complete), (2) a fresh resolver over the same library must
    give the reference result. Returns the list of failing k with details.
    """
    from .procs import fork_call
    failures = []
    fired = 0
    landing = {}
    for k in ks:
        out = fork_call(_enum_point, (item, which, k, ref), timeout=120)
        if out["fired"]:
            fired += 1
            landing[out["where"]] = landing.get(out["where"], 0) + 1
        if out["violations"]:
            failures.append({"k": k, "violations": out["violations"]})
    return {"points": len(ks), "fired": fired, "failures": failures, "landing": landing}


def _enum_point(item, which, k, ref):
    sc = enum_scenario(item, k, which)
    sc["finalised"] = True
    if which != "resolve_all":
        sc["clients"][0]["script"][0]["expect"] = grow_expectations(sc["clients"][0]["script"][0])
    out = run_scenario(sc, None)
    violations = list(out["violations"])
    last = [e for e in out["events"] if e["op"] == "resolve_all" and not e.get("armed")]
    if not last or last[-1].get("out") != "ok" or last[-1].get("dig") != ref:
        violations.append({"oracle": "C12.same-input C12.library", "event": None,
                           "detail": "after an abort at line %d of %s a fresh resolver over the same library gave %r, reference %r"
                                     % (k, which, last[-1].get("dig") if last else None, ref)})
    armed = [e for e in out["events"] if e.get("armed")]
    fired = bool(armed and armed[0].get("fired"))
    where = armed[0]["out"].split("@")[1] if fired else None
    return {"fired": fired, "where": where, "violations": violations}
