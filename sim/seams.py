"""
Seams the simulator owns: abort injector (sys.settrace), SimRandom (entropy
under stdlib random), SimClock, SimEmbedder (RDKit AllChem proxy).
"""
import os
import sys
import math
import random as _stdlib_random

from .core import H

REPO = os.environ.get("VERIF_REPO", "/repo")
PKG_PREFIX = os.path.join(os.path.realpath(REPO), "cgsmiles") + os.sep


class SimInterrupt(KeyboardInterrupt):
    """Injected abort (a Ctrl-C in a notebook, a MemoryError, ...)."""


class AbortInjector:
    """
    Counts 'line' events in frames whose code lives under /repo/cgsmiles and
    raises SimInterrupt at the k-th one (k=0: count only).
    """

    def __init__(self, abort_at=0):
        self.abort_at = int(abort_at or 0)
        self.count = 0
        self.fired = None
        self._files = {}

    def _is_pkg(self, filename):
        hit = self._files.get(filename)
        if hit is None:
            try:
                hit = os.path.realpath(filename).startswith(PKG_PREFIX) and \
                    (os.sep + "tests" + os.sep) not in filename
            except Exception:
                hit = False
            self._files[filename] = hit
        return hit

    def _global(self, frame, event, arg):
        if self._is_pkg(frame.f_code.co_filename):
            return self._local
        return None

    def _local(self, frame, event, arg):
        if event == "line":
            self.count += 1
            if self.abort_at and self.count == self.abort_at and self.fired is None:
                self.fired = "%s:%d" % (os.path.basename(frame.f_code.co_filename), frame.f_lineno)
                raise SimInterrupt(self.fired)
        return self._local

    def __enter__(self):
        sys.settrace(self._global)
        return self

    def __exit__(self, *exc):
        sys.settrace(None)
        return False


# ---------------------------------------------------------------------------
# entropy
# ---------------------------------------------------------------------------

class SimRandom(_stdlib_random.Random):
    """
    Entropy source owned by the simulator, installed as `cgsmiles.sample.random`.

    Only `random()` (and `getrandbits`, which stdlib `choice` uses) is replaced;
    `choice`/`choices` then run the real stdlib algorithms on values the
    simulator supplies. `choices`/`choice` are wrapped to *observe* population
    and weights so that the next value can be aimed at a rare branch
    (smallest positive weight, cumulative boundary, first/last element).
    `seed(a)` re-keys the stream to H(run key, a): same seed => same stream.
    """

    EDGE_VALUES = [0.0, 2.0 ** -53, 1.0 - 2.0 ** -53, 0.5]

    def __init__(self, key, steer=0.0, edge=0.0, script=None):
        super().__init__(0)
        self._key = key
        self._steer = steer
        self._edge = edge
        self._script = list(script) if script is not None else None
        self._pos = 0
        self._aim = None
        self._last_edge = False
        self.draws = 0
        self.seed_calls = []
        self.trace = []
        self.steered = 0
        self.edges_used = 0
        self.log = []          # recorded values, replayable as script
        self._stream = _stdlib_random.Random(H("simrandom", key, "unseeded"))
        self._ctl = _stdlib_random.Random(H("simrandom-ctl", key))

    # -- seeding ----------------------------------------------------------
    def seed(self, a=None, version=2):
        if not hasattr(self, "_key"):
            return super().seed(0)
        self.seed_calls.append(repr(a))
        self._stream = _stdlib_random.Random(H("simrandom", self._key, "seed", repr(a)))
        self._ctl = _stdlib_random.Random(H("simrandom-ctl", self._key, "seed", repr(a)))
        self._pos = 0
        self._aim = None
        self._last_edge = False

    # -- raw values -------------------------------------------------------
    def _next_value(self):
        self.draws += 1
        if self._script is not None and self._pos < len(self._script):
            value = self._script[self._pos]
            self._pos += 1
            self._aim = None
            self.log.append(value)
            return value
        self._pos += 1
        value = None
        if self._aim is not None:
            value = self._aim
            self._aim = None
            self.steered += 1
            self._last_edge = False
        elif self._edge and not self._last_edge and self._ctl.random() < self._edge:
            value = self._ctl.choice(self.EDGE_VALUES)
            self.edges_used += 1
            self._last_edge = True
        else:
            value = self._stream.random()
            self._last_edge = False
        self.log.append(value)
        return value

    def random(self):
        return self._next_value()

    # -- observed selection ---------------------------------------------------
    def choices(self, population, weights=None, *, cum_weights=None, k=1):
        population = list(population)
        if weights is not None and k == 1 and self._steer and self._script is None:
            try:
                ws = [float(w) for w in weights]
            except Exception:
                ws = None
            if ws and all(math.isfinite(w) for w in ws) and sum(ws) > 0 and self._ctl.random() < self._steer:
                total = sum(ws)
                positive = [i for i, w in enumerate(ws) if w > 0]
                mode = self._ctl.choice(["smallest", "boundary", "first", "last"])
                if mode == "smallest":
                    tgt = min(positive, key=lambda i: (ws[i], i))
                elif mode == "first":
                    tgt = positive[0]
                elif mode == "last":
                    tgt = positive[-1]
                else:
                    tgt = self._ctl.choice(positive)
                lo = sum(ws[:tgt]) / total
                hi = sum(ws[:tgt + 1]) / total
                if mode == "boundary":
                    aim = lo
                else:
                    aim = lo + (hi - lo) * 0.5
                self._aim = min(max(aim, 0.0), 1.0 - 2.0 ** -53)
        self.trace.append(("choices", len(population)))
        return super().choices(population, weights, cum_weights=cum_weights, k=k)

    def choice(self, seq):
        self.trace.append(("choice", len(seq)))
        n = len(seq)
        if self._steer and self._script is None and n > 1 and self._ctl.random() < self._steer * 0.5:
            # stdlib: floor(random() * 2**53) % n  (Random._randbelow_without_getrandbits)
            tgt = self._ctl.choice([0, n - 1])
            q = self._ctl.randrange(0, max(1, (1 << 53) // n - 1))
            self._aim = (q * n + tgt) / float(1 << 53)
        return super().choice(seq)


class SimClock:
    """Stand-in for the `time` module inside cgsmiles.sample."""

    def __init__(self, start_ns, deltas):
        self.now = int(start_ns)
        self.deltas = list(deltas) or [1]
        self.reads = 0
        self.span = 0

    def time_ns(self):
        value = self.now
        delta = self.deltas[self.reads % len(self.deltas)]
        self.reads += 1
        self.now += delta
        self.span += abs(delta)
        return value

    def time(self):
        return self.time_ns() / 1e9

    def jump(self, delta):
        self.now += int(delta)
        self.span += abs(int(delta))

    def __getattr__(self, name):
        import time as _time
        return getattr(_time, name)
