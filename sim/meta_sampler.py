"""Evidence aggregation for the sampler simulation (C16, C17, C09)."""
from collections import Counter

ASSUMPTIONS = [
    "exploration, not proof: configurations, seeds, entropy streams and histories are sampled from a seeded PRNG",
    "descriptor model (complement relation, order-suffix default, terminal rules) is the harness' reading of the documented behaviour",
    "zero reactivity is judged only for explicit zeros; an empty conditional row means 'no table'; unlisted keys are logged as probes",
    "dead ends (no open descriptor, all reactivities zero, missing complement) are outcomes, not verdicts: the properties speak about molecules that are returned",
    "workload keeps descriptors off aromatic ring atoms (the sampler cannot bond through them; nothing is returned, no property covers it)",
    "real code: cgsmiles, pysmiles, networkx, numpy, stdlib random.choice/choices algorithms; stubs: entropy under stdlib random (owned-entropy mode only), the clock (cgsmiles.sample.time)",
]

RULE = ("one evaluation = one simulated history in one process: 2-7 ops over 1-2 generated sampler configurations (1-4 fragments, 1-4 "
        "descriptors each of kinds $/$X/>/</>X/<X and orders 1-2, polymer/conditional reactivity tables with explicit zeros and missing keys, "
        "terminal sets, given or element-derived masses, start fragment, targets from <=0 to ~55 growth steps, all-atom or coarse): atomic "
        "construct-and-sample with a seed, sample() again on the same object, seed=None through the simulated clock, foreign RNG use, clock "
        "jumps, aborted calls, resolver co-tenant over the same fragment dict; in seed mode the real global random decides, in owned-entropy "
        "mode the simulator supplies and steers every random() value. distinct = distinct hash of the (fragment, site, partner) decision "
        "sequence of a returned molecule; non-trivial = at least 3 growth steps using at least 2 distinct site descriptors")


def coverage(prop, executed, rejected, tier):
    total = Counter()
    traj = set()
    rich = set()
    for res in executed:
        stats = res.get("stats", {})
        for key, value in stats.items():
            if isinstance(value, (int, float)) and not isinstance(value, bool):
                total[key] += value
        traj.update(stats.get("trajectories", []))
        rich.update(stats.get("rich_trajectories", []))
    samples = [res["sample"] for res in executed[:2] if res.get("sample")]
    return {
        "evaluations": len(executed),
        "productive_results_judged": int(total.get("molecules", 0)),
        "distinct_nontrivial": len(rich),
        "rule": RULE,
        "samples": samples,
        "distinct_trajectories": len(traj),
        "molecules_checked": int(total.get("molecules", 0)),
        "growth_steps_monitored": int(total.get("growth_steps", 0)),
        "fragment_copies": int(total.get("copies", 0)),
        "ops_executed": int(total.get("ops", 0)),
        "op_histogram": {k[3:]: int(v) for k, v in sorted(total.items()) if k.startswith("op:")},
        "outcomes": {k[8:]: int(v) for k, v in sorted(total.items()) if k.startswith("outcome:")},
        "dead_end_kinds": {k[8:]: int(v) for k, v in sorted(total.items()) if k.startswith("deadend:")},
        "histories_with_debug_logging": int(total.get("env:debug-logging", 0)),
        "faults_armed_fired": {k: int(v) for k, v in sorted(total.items()) if k.startswith("fault:")},
        "probes": {k[6:]: int(v) for k, v in sorted(total.items()) if k.startswith("probe:")},
        "modes": {k[5:]: int(v) for k, v in sorted(total.items()) if k.startswith("mode:")},
        "sampler_construction": {k[5:]: int(v) for k, v in sorted(total.items()) if k.startswith("ctor:")},
        "entropy": {"draws": int(total.get("entropy_draws", 0)), "steered": int(total.get("entropy_steered", 0)),
                    "edge_values": int(total.get("entropy_edges", 0)), "seed_calls": int(total.get("seed_calls", 0))},
        "terminal": {"atoms_that_received_terminal": int(total.get("terminal_received", 0)),
                     "atoms_with_terminal_withdrawn": int(total.get("terminal_withdrawn_atoms", 0))},
        "valence_graphs": int(total.get("valence_graphs", 0)),
        "valence_atoms_judged": int(total.get("valence_judged", 0)),
        "valence_atoms_unjudged": int(total.get("valence_unjudged", 0)),
        "resolver_side_graphs_monitored": int(total.get("resolver_graphs", 0)),
        "formulas_by_construction_checked": int(total.get("formula_checked", 0)),
        "resolver_side_drivers": {name: int(total.get("resolver_driver_%d" % k, 0)) for k, name in
                                  enumerate(["resolve_all", "manual", "resolve_iter", "manual then resolve_iter"])},
        "hydrogen_counts_by_construction": int(total.get("hcount_atoms", 0)),
        "kekulised_ring_bonds_seen": int(total.get("kekulised_ring_bonds", 0)),
        "simulated_time": {"clock_reads": int(total.get("clock_reads", 0)), "span_ns": int(total.get("clock_span_ns", 0))},
        "components": {"real": ["cgsmiles", "pysmiles", "networkx", "numpy", "stdlib random algorithms"],
                       "stubbed": ["entropy source under stdlib random (owned-entropy mode)", "clock (cgsmiles.sample.time)"]},
    }
