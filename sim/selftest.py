"""
Self-tests of the simulator itself.

  check.py selftest --setup                 imports, worker start-up, one tiny run per engine
  check.py selftest --determinism [ID ...]  same run seeds twice, at two worker counts and two
                                            hash seeds in fresh interpreters; event-log digests
                                            must be identical (DESIGN 3.9)
"""
import os
import sys
import time

from . import procs


def setup():
    import networkx, numpy, scipy, pysmiles, rdkit  # noqa
    results, errors = procs.run_tasks([{"prop": "C12", "mode": "run", "seed": 0, "run": 0, "tier": "quick"}], n_workers=1)
    if errors or results[0] is None or results[0].get("harness_error"):
        print("HARNESS-ERROR setup: %r %r" % (errors, results[0]))
        return 2
    print("setup ok: worker started, cgsmiles imported from %s, one run executed (%s)" % (procs.REPO, results[0]["status"]))
    return 0


def determinism(props, seed, n=None):
    from check import PROPS
    props = props or PROPS
    n = n or int(os.environ.get("VERIF_SELFTEST_RUNS", "500"))
    bad = 0
    for prop in props:
        t0 = time.time()
        digests = []
        for workers, hs_shift in ((16, 0), (3, 1), (1, 2)):
            count = n if workers > 1 else max(10, n // 16)
            tasks = [{"prop": prop, "mode": "run", "seed": seed, "run": idx, "tier": "quick", "minimise": False,
                      "hash_seed": procs.HASH_SEEDS[(idx + hs_shift) % len(procs.HASH_SEEDS)]} for idx in range(count)]
            results, errors = procs.run_tasks(tasks, n_workers=workers)
            if errors:
                print("HARNESS-ERROR determinism %s: %r" % (prop, errors[:3]))
                return 2
            digests.append({r["run"]: (r.get("status"), r.get("digest"), r.get("hash_seed_used")) for r in results if r})
        base = digests[0]
        diff = []
        for other in digests[1:]:
            for run, (status, dig, hs) in other.items():
                if base[run][:2] != (status, dig):
                    diff.append((run, base[run], (status, dig, hs)))
        print("determinism %s: %d seeds x3 configurations (16/3/1 workers, rotated hash seeds): %d differences, %.0fs"
              % (prop, n, len(diff), time.time() - t0), flush=True)
        for item in diff[:5]:
            print("   ", item)
        bad += len(diff)
    return 0 if bad == 0 else 2


def main(args, seed):
    if args.setup:
        return setup()
    if args.determinism:
        return determinism(args.rest, seed)
    print("selftest: nothing requested")
    return 0
