"""Evidence aggregation for the RDKit bridge simulation (C18)."""
from collections import Counter

ASSUMPTIONS = [
    "exploration, not proof: molecules, node orders, engine seeds and histories are sampled from a seeded PRNG",
    "stub engine: every RDKit atom index receives a unique coordinate, so 'own atom' is decided up to a symmetry of the molecule (element, charge and bonds of the induced node->atom map must match)",
    "real engine: ETKDG + UFF with a simulator-supplied randomSeed; a bonded pair counts as 'at bonding distance' within 0.7-2.3 A for the workload alphabet (C N O S F Cl Br H); natural embedding failures are outcomes",
    "round-trip equality is decided on the heavy-atom graph labelled (element, charge, total hydrogens) with bond orders, by isomorphism, so it does not depend on how either side numbers atoms",
    "real code: cgsmiles.rdkit, cgsmiles.coordinates, the resolver that produces the molecules, RDKit conversion/sanitisation, RDKit embedder and UFF in real mode; stubs: RDKit EmbedMolecule/UFFOptimizeMolecule in stub mode",
]

RULE = ("one evaluation = one simulated history of 2-7 bridge calls on one resolved molecule (generated multi-fragment leaf decomposition "
        "with weight annotations, curated strings incl. shared atoms, Kekule five-ring heteroaromatics) whose node insertion order and "
        "integer keys were permuted by the harness: round trip without/with conformer, embed_3d_via_rdkit, embedd_cg_molecule_via_rdkit, "
        "forward_map_molecule, forward map after a rigid translation, engine reseed, foreign RNG use; engine behind the seam is the stub "
        "(unique attributable coordinates) or real RDKit with the simulator's seed. distinct = distinct (string, permutation, relabelling, "
        "engine); non-trivial = node iteration order differs from key order")


def coverage(prop, executed, rejected, tier):
    total = Counter()
    cases = set()
    nontrivial = set()
    for res in executed:
        stats = res.get("stats", {})
        for key, value in stats.items():
            if isinstance(value, (int, float)) and not isinstance(value, bool):
                total[key] += value
        cases.add(stats.get("case"))
        if res.get("nontrivial"):
            nontrivial.add(stats.get("case"))
    samples = [res["sample"] for res in executed[:3] if res.get("sample")]
    return {
        "evaluations": len(executed),
        "productive_results_judged": int(total.get("embeds_ok", 0)),
        "distinct_nontrivial": len(nontrivial),
        "rule": RULE,
        "samples": samples,
        "distinct_cases": len(cases),
        "atoms_total": int(total.get("atoms", 0)),
        "op_histogram": {k[3:]: int(v) for k, v in sorted(total.items()) if k.startswith("op:")},
        "outcomes": {k[8:]: int(v) for k, v in sorted(total.items()) if k.startswith("outcome:")},
        "engines": {k[7:]: int(v) for k, v in sorted(total.items()) if k.startswith("engine:")},
        "item_families": {k[7:]: int(v) for k, v in sorted(total.items()) if k.startswith("family:")},
        "node_orderings": {k[8:]: int(v) for k, v in sorted(total.items()) if k.startswith("permute:")},
        "histories_with_debug_logging": int(total.get("env:debug-logging", 0)),
        "faults_armed_fired": {k: int(v) for k, v in sorted(total.items()) if k.startswith("fault:")},
        "engine_calls": int(total.get("engine_calls", 0)),
        "engine_natural_failures": int(total.get("engine_failures", 0)),
        "engine_refused_zero_order_bond": int(total.get("engine_refused_zero_order_bond", 0)),
        "embeds_checked": int(total.get("embeds_ok", 0)),
        "bonded_distances_checked_real_engine": int(total.get("bonded_distances_checked", 0)),
        "beads_checked": int(total.get("beads_checked", 0)),
        "translations_checked": int(total.get("translations", 0)),
        "simulated_time": "not applicable (the bridge reads no clock)",
        "components": {"real": ["cgsmiles.rdkit", "cgsmiles.coordinates", "cgsmiles resolver", "RDKit conversion and sanitisation", "RDKit ETKDG+UFF (real-engine runs)"],
                       "stubbed": ["RDKit EmbedMolecule / UFFOptimizeMolecule (stub-engine runs)"]},
    }
