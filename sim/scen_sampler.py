"""
Sampler simulation (properties C16, C17 and the sampler half of C09).

The growth process itself is what is simulated. Two drive modes:
  * seed mode: nothing patched but the clock; trajectories are chosen by the
    seed handed to the constructor (robust against RNG-plumbing refactors);
  * owned-entropy mode: `cgsmiles.sample.random` is a SimRandom, the
    simulator supplies every random() value, steers into rare branches and
    boundary values, and records the decision sequence.
A run is a history of ops in one process: atomic construct-and-sample ops,
repeated sample() on one object, seed=None constructions through the
simulated clock, foreign RNG use, clock jumps, aborted sample() calls,
resolver co-tenants over the same fragment dict. Oracles: growth-step monitor
against the descriptor model, post-hoc well-formedness of every returned
molecule, stopping rule, masses, zero reactivities, terminal rules, and
reproducibility of seeded construct-and-sample against a pristine reference.
"""
import copy
import math
import re
from collections import Counter, defaultdict

from .core import H, rng_for, digest, sha, jdump, HarnessError, raised_in_harness, apply_env, env_debug_logging
from . import gen_sampler, gen_mol
from .gen_sampler import norm_key, is_complement, complements, materialise


# ---------------------------------------------------------------------------
# generation
# ---------------------------------------------------------------------------

# resolver-side C09 monitor: free ions that need hydrogens of their own, salts, unused descriptors
# molecules with more than 1000 heavy atoms (rare: about two seconds each)
BIG_STRINGS = [
    "{[#A][#B]|560[#D]}.{#A=CC[!],#B=[!]CCC[!],#D=[!]CC}",
    "{[#A][#B]|520[#D]}.{#A=CC[$],#B=[$]CC[$],#D=[!]CC[!]}",
    "{[#A][#B]|350[#D]}.{#A=OC[$],#B=[$]C(C)C[$]O,#D=[$]C}",
]
ION_STRINGS = [
    # several molecules in one system
    "{[#A][#B].[#C]}.{#A=[$]CC,#B=[$]O,#C=O}",
    "{[#A].[#B].[#A]}.{#A=CCO,#B=[NH4+].[Cl-]}",
    "{[#A]}.{#A=CC(=O)[O-].[NH4+]}",
    "{[#A][#B]}.{#A=CC[$].[OH-],#B=[$]C[NH3+]}",
    "{[#A][#B]}.{#A=OC[$].[OH3+],#B=[$]CC(=O)[O-]}",
    "{[#A]|3}.{#A=[$]CC[$][N+](C)(C)C.[Cl-]}",
    "{[#A][#B]}.{#A=[$]CC[$][$],#B=[$]C[O-].[Na+]}",
    "{[#A]}.{#A=[NH4+].[OH-]}",
    # aromatic units split across fragments, rings of identical units
    "{[#TC5]1[#TC5][#TC5]1}.{#TC5=[$]cc[$]}",
    "{[#A]=[#B]}.{#A=[$]cc[$]C,#B=[$]cccc[$]}",
    "{[#A][#B][#A]}.{#A=Cc1ccc([$])cc1,#B=[$]c1ccc([$])cc1}",
    "{[#P]=[#Q]}.{#P=[$]cnc[$],#Q=[$]ccc[$]}",
    # a virtual (fragment-less) site written before / between the real nodes
    "{[#VS].[#ET][#OH]}.{#ET=[$]CC,#OH=[$]O}",
    "{[#ET]1.[#VS].[#OH]1}.{#ET=[$]CC,#OH=[$]O}",
    "{[#A].[#VS].[#B]}.{#A=[$]CC[$],#B=[$]N}",
]

def generate(run_seed, prop, tier="quick"):
    rng = rng_for("sampler-scenario", run_seed)
    all_atom = True if prop == "C09" else None
    # a host program that discards its samplers before it builds the next one (their tables are freed, and CPython
    # hands the memory - and the id() - to whatever is built next); such hosts mostly run one chemistry with several tables
    release = rng_for("sampler-release", run_seed).random() < 0.35
    n_cfg = 2 if release and rng.random() < 0.6 else rng.choice([1, 1, 2])
    configs = [gen_sampler.gen_config(rng, all_atom=all_atom, tier=tier)]
    if n_cfg == 2:
        # a second configuration: unrelated, or the same fragments with other tables (second user of one chemistry)
        configs.append(gen_sampler.vary_tables(rng, configs[0]) if rng.random() < (0.85 if release else 0.5)
                       else gen_sampler.gen_config(rng, all_atom=all_atom, tier=tier))
    mode = "owned" if rng.random() < 0.6 else "seed"
    entropy = {"key": rng.randrange(2 ** 40), "steer": rng.choice([0.0, 0.15, 0.4, 0.8]) if mode == "owned" else 0.0,
               "edge": rng.choice([0.0, 0.0, 0.05, 0.2]) if mode == "owned" else 0.0}
    faults = {f: rng.random() < 0.55 for f in ("abort", "foreign", "clock", "cotenant", "again", "noseed", "ownparse", "scribble")}
    ops = []
    ctor_choice = rng.choice(["from_string", "from_string", "shared_dict"])
    # seeds include the values a careless truthiness or width test would mishandle
    seeds = [rng.choice([0, 0, 1, 42, 2 ** 31 - 1, 2 ** 32, 2 ** 64 + 5, rng.randrange(10 ** 9)]) for _ in range(3)]
    n_ops = rng.randint(2, 6)
    for _ in range(n_ops):
        cfg = rng.randrange(n_cfg)
        roll = rng.random()
        if roll < 0.55 or not ops:
            ops.append({"op": "cs", "cfg": cfg, "seed": rng.choice(seeds)})
        elif roll < 0.62 and faults["again"]:
            ops.append({"op": "again", "cfg": cfg})
        elif roll < 0.66 and faults["scribble"]:
            ops.append({"op": "scribble_last", "cfg": cfg, "how": rng.randrange(3)})
        elif roll < 0.73 and faults["noseed"]:
            ops.append({"op": "cs_none", "cfg": cfg, "clock": rng.choice([0, 1, 1700000000 * 10 ** 9, 2 ** 63 - 5, rng.randrange(2 ** 62)])})
        elif roll < 0.81 and faults["foreign"]:
            ops.append({"op": "foreign_rng", "seed": rng.randrange(10 ** 6), "draws": rng.randint(0, 5)})
        elif roll < 0.87 and faults["clock"]:
            ops.append({"op": "clock_jump", "delta": rng.choice([-10 ** 18, -1, 0, 1, 86400 * 10 ** 9, 10 ** 17])})
        elif roll < 0.94 and faults["abort"]:
            ops.append({"op": "cs", "cfg": cfg, "seed": rng.choice(seeds), "abort_at": rng.randint(1, 900)})
        elif faults["cotenant"] and rng.random() < 0.5:
            ops.append({"op": "co_resolve", "cfg": cfg})
        elif faults["ownparse"] and rng.random() < 0.6:
            ops.append({"op": "own_parse_edit", "cfg": cfg, "how": rng.choice(["rebuild_h", "rebuild_h", "attrs", "clear_bonding"])})
        elif ctor_choice == "shared_dict" and faults["ownparse"] and rng.random() < 0.5:
            ops.append({"op": "edit_template", "cfg": cfg})
        elif rng.random() < 0.3:
            ops.append({"op": "mass_check", "which": rng.randrange(len(MASS_FRAGMENTS))})
        elif faults["ownparse"]:
            ops.append({"op": "helper_call", "how": rng.choice(["compute_mass_plain", "rebuild_h_plain", "both"]),
                        "smiles": rng.choice(["CCO", "c1ccccc1C", "CC(=O)[O-]", "C#N"])})
        else:
            ops.append({"op": "cs", "cfg": cfg, "seed": rng.choice(seeds)})
    # make sure at least one seeded op is repeated later in the history
    firsts = [o for o in ops if o["op"] == "cs" and not o.get("abort_at")]
    if firsts:
        ops.append(dict(rng.choice(firsts)))
    ctor = ctor_choice
    scenario = {"family": "sampler", "prop": prop, "run_seed": run_seed, "configs": configs, "mode": mode, "ctor": ctor, "debug_logging": env_debug_logging(run_seed),
                "entropy": entropy, "ops": ops, "faults_enabled": sorted(k for k, v in faults.items() if v)}
    scenario["release"] = release
    if prop == "C09":
        scenario["resolver_items"] = [gen_mol.build_item(rng, kind="atomistic", weights=rng.random() < 0.5,
                                                         hyper=rng.choice([(), ("S", "P", "N"), ("S", "P", "N", "exotic")]),
                                                         explicit_h=rng.random() < 0.3,
                                                         components=rng.choice([1, 1, 1, 2, 3])) for _ in range(rng.choice([1, 2]))]
        if rng.random() < 0.35:
            scenario["resolver_strings"] = [rng.choice(ION_STRINGS + [w[0] for w in WRITTEN_H_STRINGS] + [f[0] for f in FORMULA_STRINGS] + SQUASH_STRINGS)]
        if rng.random() < 0.02:
            scenario["resolver_strings"] = scenario.get("resolver_strings", []) + [rng.choice(BIG_STRINGS)]
    return scenario


# ---------------------------------------------------------------------------
# model-side helpers
# ---------------------------------------------------------------------------

def _norm_tables(cfg):
    poly = {norm_key(k): float(materialise(v)) for k, v in cfg["polymer_reactivities"].items()}
    frag = {norm_key(k): {norm_key(k2): float(materialise(v2)) for k2, v2 in row.items()} for k, row in cfg["fragment_reactivities"].items()}
    term = {norm_key(k) for k in cfg["terminal_bonds"]}
    return poly, frag, term


def _bonding_of(graph, node):
    value = graph.nodes[node].get("bonding")
    return list(value) if value else []


class StepMonitor:
    """Checks every growth step against the model (C16 growth clause, C17 zero/terminal clauses)."""

    def __init__(self, cfg, templates, out):
        self.cfg = cfg
        self.templates = templates          # name -> networkx template graph (as read by the code)
        self.poly, self.frag, self.term = _norm_tables(cfg)
        self.out = out
        self.steps = 0
        self.trajectory = []
        self.probes = Counter()

    def violate(self, oracle, detail):
        self.out.append({"oracle": oracle, "detail": "growth step %d: %s" % (self.steps, detail)})

    # per-step snapshots cost O(molecule) each; beyond this many steps of one sample() only the step count and the
    # fragment drawn are recorded and the post-hoc oracles judge the finished molecule
    FULL_STEPS = 250

    def before(self, molecule):
        if self.steps >= self.FULL_STEPS:
            return None
        return {"nodes": {n: (list(molecule.nodes[n].get("fragid", [])), _bonding_of(molecule, n)) for n in molecule.nodes},
                "edges": {frozenset(e) for e in molecule.edges}}

    def after(self, snap, molecule, fragname):
        self.steps += 1
        if snap is None:
            self.trajectory.append((fragname, None, None))
            self.probes["steps_not_snapshotted"] += 1
            return
        new_nodes = [n for n in molecule.nodes if n not in snap["nodes"]]
        template = self.templates.get(fragname)
        if template is None:
            self.violate("C16.growth", "added fragment name %r is not in the fragment set" % (fragname,))
            return
        if len(new_nodes) != len(template):
            self.violate("C16.growth", "one step added %d nodes, template %s has %d" % (len(new_nodes), fragname, len(template)))
            return
        old_ids = [f for ids, _ in snap["nodes"].values() for f in ids]
        want_id = max(old_ids) + 1 if old_ids else 0
        ids = {tuple(molecule.nodes[n].get("fragid", [])) for n in new_nodes}
        if ids != {(want_id,)}:
            self.violate("C16.membership", "new copy carries fragid %r, expected [%d]" % (sorted(ids), want_id))
        new_edges = [e for e in map(frozenset, molecule.edges) if e not in snap["edges"]]
        cross = [e for e in new_edges if len(e & set(new_nodes)) == 1]
        inner = [e for e in new_edges if len(e & set(new_nodes)) == 2]
        stale = [e for e in new_edges if len(e & set(new_nodes)) == 0]
        if len(cross) != 1 or stale:
            self.violate("C16.growth", "new fragment attached by %d bonds (%d new bonds among old atoms)" % (len(cross), len(stale)))
            return
        if len(inner) != template.number_of_edges():
            self.violate("C16.template", "copy of %s has %d internal bonds, template has %d" % (fragname, len(inner), template.number_of_edges()))
        (edge,) = cross
        target = next(iter(edge & set(new_nodes)))
        source = next(iter(edge - set(new_nodes)))
        data = molecule.edges[source, target]
        bonding = data.get("bonding")
        if not (isinstance(bonding, (tuple, list)) and len(bonding) == 2):
            self.violate("C16.growth", "attaching bond carries no descriptor pair (%r)" % (bonding,))
            return
        site, partner = bonding
        self.trajectory.append((fragname, site, partner))
        if not is_complement(site, partner):
            self.violate("C16.complement", "bond joins %r with %r which are not complementary descriptors of equal order" % (site, partner))
        if data.get("order") != int(site[-1]):
            self.violate("C16.complement", "bond order %r differs from descriptor order %s" % (data.get("order"), site[-1]))
        was = snap["nodes"][source][1]
        if site not in was:
            self.violate("C16.no-reuse", "site descriptor %r was not open on atom %r (open: %r)" % (site, source, was))
            return
        # template node of the target: new nodes are numbered in template node order
        order = sorted(new_nodes)
        tnodes = list(template.nodes)
        tnode = tnodes[order.index(target)]
        tdesc = list(template.nodes[tnode].get("bonding", []) or [])
        if partner not in tdesc:
            self.violate("C16.no-reuse", "partner descriptor %r is not written on template atom %r of %s (%r)" % (partner, tnode, fragname, tdesc))
            return
        # --- descriptor bookkeeping -------------------------------------------------
        remaining = list(was)
        remaining.remove(site)
        now_source = _bonding_of(molecule, source)
        if partner in self.term:
            self.probes["terminal_partner"] += 1
            if now_source:
                self.violate("C17.terminal", "atom %r received terminal partner %r but still offers %r" % (source, partner, now_source))
        else:
            expect = [d for d in remaining if d not in self.term]
            if len(expect) != len(remaining):
                self.probes["terminal_withdrawn"] += 1
            if any(d in self.term for d in now_source):
                self.violate("C17.terminal", "atom %r grew through non-terminal partner %r but still offers terminal descriptors: %r" % (source, partner, now_source))
            elif sorted(now_source) != sorted(expect):
                self.violate("C16.no-reuse", "atom %r grew through %r; it now offers %r, expected %r" % (source, site, now_source, expect))
        tremaining = list(tdesc)
        tremaining.remove(partner)
        if sorted(_bonding_of(molecule, target)) != sorted(tremaining):
            self.violate("C16.no-reuse", "new atom %r offers %r after using %r, expected %r" % (target, _bonding_of(molecule, target), partner, tremaining))
        for node, (ids, descs) in snap["nodes"].items():
            if node != source and node in molecule.nodes and sorted(_bonding_of(molecule, node)) != sorted(descs):
                self.violate("C16.no-reuse", "descriptors of uninvolved atom %r changed from %r to %r" % (node, descs, _bonding_of(molecule, node)))
                break
        for idx, node in enumerate(order):
            if node == target:
                continue
            want = list(template.nodes[tnodes[idx]].get("bonding", []) or [])
            if sorted(_bonding_of(molecule, node)) != sorted(want):
                self.violate("C16.template", "new atom %r offers %r, template says %r" % (node, _bonding_of(molecule, node), want))
                break
        # --- reactivities -----------------------------------------------------------
        if self.poly and self.poly.get(site) == 0:
            self.violate("C17.zero-reactivity", "descriptor %r has polymer reactivity 0 but was chosen as growth site" % (site,))
        if self.poly and site not in self.poly:
            self.probes["unlisted_site_chosen"] += 1
        row = self.frag.get(site)
        if row:
            if row.get(partner) == 0:
                self.violate("C17.zero-reactivity", "partner %r has conditional reactivity 0 given %r but was chosen" % (partner, site))
            if any(v == 0 for v in row.values()):
                self.probes["zero_partner_present"] += 1
        if self.poly and any(self.poly.get(d) == 0 for _, ds in snap["nodes"].values() for d in ds):
            self.probes["zero_site_open"] += 1


def check_molecule(mol, cfg, templates, masses, target, start_fragment, out, stats):
    """Post-hoc oracles on a molecule returned by sample()."""
    import networkx as nx
    from .valence import check_valence
    from . import graphcmp
    poly, frag, term = _norm_tables(cfg)

    def violate(oracle, detail):
        out.append({"oracle": oracle, "detail": detail})

    n = len(mol)
    if n == 0:
        violate("C16.connected", "sample() returned an empty graph")
        return
    # -- valence (C09 / C16 last clause): independent of the structural oracles below ------------
    if cfg["all_atom"]:
        for detail in check_valence(mol, explicit_h=bool(cfg.get("explicit_h")), stats=stats):
            violate("C09.valence C16.valence", detail)
        stats["valence_graphs"] = stats.get("valence_graphs", 0) + 1
    keys = list(mol.nodes)
    if set(keys) != set(range(n)) or not all(isinstance(k, int) for k in keys):
        violate("C16.numbering", "node keys are not 0..n-1")
        return
    if not nx.is_connected(mol):
        violate("C16.connected", "returned molecule has %d connected components" % nx.number_connected_components(mol))
    blocks = []
    for key in range(n):
        fragid = mol.nodes[key].get("fragid")
        if not (isinstance(fragid, list) and len(fragid) == 1):
            violate("C16.membership", "node %d has fragid %r" % (key, fragid))
            return
        if not blocks or blocks[-1][0] != fragid[0]:
            blocks.append([fragid[0], []])
        blocks[-1][1].append(key)
    ids = [b[0] for b in blocks]
    if ids != sorted(set(ids)) or len(ids) != len(set(ids)):
        violate("C16.numbering", "fragment copies are not contiguous blocks in fragid order: %r" % (ids[:30],))
        return
    if ids != list(range(len(ids))):
        violate("C16.numbering", "fragment ids are not 0..k-1: %r" % (ids[:30],))
    copy_of = {key: b[0] for b in blocks for key in b[1]}
    # -- tree of copies ---------------------------------------------------------------
    quotient = nx.Graph()
    quotient.add_nodes_from(ids)
    inter = []
    for u, v, data in mol.edges(data=True):
        if copy_of[u] != copy_of[v]:
            inter.append((u, v, data))
            if quotient.has_edge(copy_of[u], copy_of[v]):
                violate("C16.tree", "copies %d and %d are joined by more than one bond" % (copy_of[u], copy_of[v]))
            quotient.add_edge(copy_of[u], copy_of[v])
    if len(inter) != len(ids) - 1 or (len(ids) > 1 and not nx.is_connected(quotient)):
        violate("C16.tree", "%d fragment copies are joined by %d inter-copy bonds" % (len(ids), len(inter)))
    consumed = defaultdict(list)   # node -> [(descriptor, role, other copy)]
    for u, v, data in inter:
        bonding = data.get("bonding")
        if not (isinstance(bonding, (tuple, list)) and len(bonding) == 2):
            violate("C16.growth", "inter-copy bond %d-%d carries no descriptor pair" % (u, v))
            continue
        site, partner = bonding
        old, new = (u, v) if copy_of[u] < copy_of[v] else (v, u)
        if not is_complement(site, partner):
            violate("C16.complement", "bond %d-%d joins %r with %r" % (u, v, site, partner))
        if data.get("order") != int(site[-1]):
            violate("C16.complement", "bond %d-%d has order %r, descriptor order %s" % (u, v, data.get("order"), site[-1]))
        consumed[old].append((site, "site", copy_of[new], partner))
        consumed[new].append((partner, "partner", copy_of[old], site))
        if poly and poly.get(site) == 0:
            violate("C17.zero-reactivity", "bond %d-%d: site descriptor %r has polymer reactivity 0" % (u, v, site))
        row = frag.get(site)
        if row and row.get(partner) == 0:
            violate("C17.zero-reactivity", "bond %d-%d: partner %r has conditional reactivity 0 given %r" % (u, v, partner, site))
    # -- copies vs templates --------------------------------------------------------------
    names = []
    by_name = {t["name"]: t for t in cfg.get("templates", [])}
    for fid, members in blocks:
        fragname = mol.nodes[members[0]].get("fragname")
        names.append(fragname)
        template = templates.get(fragname)
        if template is None:
            violate("C16.template", "copy %d has unknown fragment name %r" % (fid, fragname))
            continue
        tnodes = list(template.nodes)
        if len(members) < len(tnodes):
            violate("C16.template", "copy %d of %s has %d nodes, template has %d" % (fid, fragname, len(members), len(tnodes)))
            continue
        head = members[:len(tnodes)]
        pos = {node: tnodes[k] for k, node in enumerate(head)}
        label = "element" if cfg["all_atom"] else "atomname"
        ok = all(mol.nodes[node].get(label) == template.nodes[pos[node]].get(label) and
                 (mol.nodes[node].get("charge", 0) or 0) == (template.nodes[pos[node]].get("charge", 0) or 0) and
                 mol.nodes[node].get("fragname") == fragname for node in head)
        got_edges = {(pos[u], pos[v]) if pos[u] <= pos[v] else (pos[v], pos[u]): float(mol.edges[u, v].get("order", 1))
                     for u in head for v in mol[u] if v in pos and u < v}
        want_edges = {(a, b) if a <= b else (b, a): float(o if o is not None else 1) for a, b, o in template.edges(data="order")}
        made = by_name.get(fragname)
        if made is not None and made.get("nh_ring") and set(got_edges) == set(want_edges):
            # a ring with an H-bearing aromatic nitrogen comes back kekulised from the final hydrogen rebuild: its
            # aromatic bonds may read 1, 2 or 1.5 (the valence and hydrogen-count oracles judge the assignment)
            for key, want in want_edges.items():
                if want == 1.5 and got_edges[key] in (1.0, 2.0):
                    got_edges[key] = 1.5
                    stats["kekulised_ring_bonds"] = stats.get("kekulised_ring_bonds", 0) + 1
        if not ok or got_edges != want_edges:
            # positional match failed: fall back to a real isomorphism test before judging
            sub = mol.subgraph([m for m in members if not (cfg["all_atom"] and mol.nodes[m].get("element") == "H"
                                                              and template.number_of_nodes() and
                                                              not any(template.nodes[t].get("element") == "H" for t in tnodes))])
            a = nx.Graph()
            for node in sub.nodes:
                a.add_node(node, label=(sub.nodes[node].get(label), sub.nodes[node].get("charge", 0) or 0))
            for u, v in sub.edges:
                a.add_edge(u, v, order=graphcmp._norm_order(sub.edges[u, v].get("order", 1)))
            b = nx.Graph()
            for node in template.nodes:
                b.add_node(node, label=(template.nodes[node].get(label), template.nodes[node].get("charge", 0) or 0))
            for u, v in template.edges:
                b.add_edge(u, v, order=graphcmp._norm_order(template.edges[u, v].get("order", 1)))
            same, why = graphcmp.isomorphic(a, b)
            if not same:
                violate("C16.template", "copy %d is not isomorphic to template %s: %s" % (fid, fragname, why))
            continue
        # extra nodes of the block must be completed hydrogens
        for node in members[len(tnodes):]:
            if not (cfg["all_atom"] and mol.nodes[node].get("element") == "H"):
                violate("C16.template", "copy %d of %s has extra node %d (%r)" % (fid, fragname, node, mol.nodes[node].get(label)))
                break
        # -- hydrogens per template atom, by construction: the hydrogens of the written atom (bracket counts and
        #    explicit hydrogens included) minus one per unit of bond order formed at it --------------------
        if cfg["all_atom"] and made is not None and "used" in made and True:
            for k, node in enumerate(head[:len(made["atoms"])]):
                if made["atoms"][k]["el"] == "H":
                    continue
                formed = sum(int(d[-1]) for d, _, _, _ in consumed.get(node, []))
                total = made["used"][k] + formed
                fits = [v for v in made["states"][k] if v >= total]
                if not fits:
                    continue
                want_h = made["xh"][k] + int(round(fits[0] - total))
                got_h = sum(1 for nb in mol[node] if mol.nodes[nb].get("element") == "H" and copy_of[nb] == fid)  # not a hydrogen end group
                stats["hcount_atoms"] = stats.get("hcount_atoms", 0) + 1
                if got_h != want_h:
                    violate("C16.valence C09.valence", "atom %d (%s, atom %d of %s) carries %d hydrogens; its written atom has %d bond orders "
                            "in use, %d were formed while growing, so %d hydrogens complete it"
                            % (node, mol.nodes[node].get("element"), k, fragname, got_h, made["used"][k], formed, want_h))
                    break
        # -- descriptor accounting per template atom -----------------------------------
        for node in head:
            written = Counter(template.nodes[pos[node]].get("bonding", []) or [])
            left = Counter(_bonding_of(mol, node))
            used = Counter(d for d, _, _, _ in consumed.get(node, []))
            if used - written:
                violate("C16.no-reuse", "atom %d used descriptors %r but its template atom offers %r" % (node, dict(used), dict(written)))
                continue
            withdrawn = written - used - left
            surplus = (left + used) - written
            if surplus:
                violate("C16.no-reuse", "atom %d: left %r + used %r exceed the written descriptors %r" % (node, dict(left), dict(used), dict(written)))
                continue
            site_events = sorted((other, partner) for d, role, other, partner in consumed.get(node, []) if role == "site")
            if not site_events:
                if withdrawn:
                    violate("C16.no-reuse", "atom %d never was a growth site but lost descriptors %r" % (node, dict(withdrawn)))
                continue
            term_events = [k for k, (_, partner) in enumerate(site_events) if partner in term]
            if term_events:
                stats["terminal_received"] = stats.get("terminal_received", 0) + 1
                if left:
                    violate("C17.terminal", "atom %d received a terminal fragment but still offers %r" % (node, dict(left)))
                if term_events[0] != len(site_events) - 1:
                    violate("C17.terminal", "atom %d grew again after it received a terminal fragment" % node)
            else:
                bad_left = [d for d in left if d in term]
                if bad_left:
                    violate("C17.terminal", "atom %d grew through a non-terminal bond but still offers terminal descriptors %r" % (node, bad_left))
                bad_gone = [d for d in withdrawn if d not in term]
                if bad_gone:
                    violate("C16.no-reuse", "atom %d lost non-terminal descriptors %r without using them" % (node, bad_gone))
                if withdrawn:
                    stats["terminal_withdrawn_atoms"] = stats.get("terminal_withdrawn_atoms", 0) + 1
    # -- stopping rule (C17) ---------------------------------------------------------------
    if start_fragment is not None and names and names[0] != start_fragment:
        violate("C17.stopping", "first copy is %r, start_fragment was %r" % (names[0], start_fragment))
    added = names[1:]
    try:
        total = sum(masses[name] for name in added)
        last = masses[added[-1]] if added else 0.0
    except KeyError as exc:
        violate("C17.stopping", "no mass for fragment %r" % (exc,))
        return
    tol = 1e-9 * max(1.0, abs(total))
    if target <= 0:
        if added:
            violate("C17.stopping", "target %g but %d fragments were added" % (target, len(added)))
    else:
        if total < target - tol:
            violate("C17.stopping", "added mass %g does not reach the target %g" % (total, target))
        if added and total - last >= target + tol:
            violate("C17.stopping", "added mass %g would reach the target %g without the last fragment (%g)" % (total, target, last))
        positive = [m for m in masses.values() if m > 0]
        if positive and len(added) > math.ceil(target / min(positive)) + 1:
            violate("C17.stopping", "%d growth steps for target %g exceed ceil(target / smallest mass %g)" % (len(added), target, min(positive)))
    stats["copies"] = stats.get("copies", 0) + len(names)


# ---------------------------------------------------------------------------
# execution inside a fork
# ---------------------------------------------------------------------------

def _outcome(exc):
    return "exc:%s:%s" % (type(exc).__name__, re.sub(r"0x[0-9a-fA-F]+", "0x?", str(exc))[:120])


def _guard(fn, *args):
    """Harness code must never be mistaken for an outcome of the code under test."""
    try:
        return fn(*args)
    except Exception as exc:  # noqa
        import traceback
        raise HarnessError("monitor failed: %s\n%s" % (exc, traceback.format_exc()))


def run_history(scenario, only=None):
    """
    Execute the history (or, with only=k, just op k in a pristine process).
    Returns events, violations, stats.
    """
    import random as stdlib_random
    import numpy as np
    import cgsmiles.sample as sample_mod
    from cgsmiles.sample import MoleculeSampler
    from cgsmiles.read_fragments import read_fragments
    from .seams import SimRandom, SimClock, AbortInjector, SimInterrupt
    sc = scenario
    violations = []
    stats = {}
    events = []
    if only is None:
        apply_env(sc, stats)
    # the process-global generators are part of the simulated world too: a sampler that
    # forgets to seed must still replay exactly, so their start state derives from the run
    stdlib_random.seed(H("global-random", sc["run_seed"], "history" if only is None else ("reference", only)))
    np.random.seed(H("global-numpy", sc["run_seed"], "history" if only is None else ("reference", only)) % 2 ** 32)
    # history and pristine reference live at different simulated times: a seeded result must not care
    clock = SimClock(1_700_000_000 * 10 ** 9 + H("clock-start", sc["run_seed"], "history" if only is None else ("reference", only)) % 10 ** 15,
                     [1, 1000, 37, 10 ** 6])
    sample_mod.time = clock
    simrandom = None
    if sc["mode"] == "owned":
        simrandom = SimRandom(sc["entropy"]["key"], steer=sc["entropy"]["steer"], edge=sc["entropy"]["edge"])
        sample_mod.random = simrandom
    monitor_box = {"monitor": None}
    orig_add = getattr(MoleculeSampler, "add_fragment", None)
    if orig_add is not None:
        def wrapped(self, molecule, *args, **kwargs):
            monitor = monitor_box["monitor"]
            snap = _guard(monitor.before, molecule) if monitor else None
            result = orig_add(self, molecule, *args, **kwargs)
            if monitor and isinstance(result, tuple) and len(result) == 2:
                _guard(monitor.after, snap, result[0], result[1])
            return result
        MoleculeSampler.add_fragment = wrapped
    else:
        stats["probe:add_fragment_missing"] = 1
    parsed = {}
    shared_dicts = {}
    last_sampler = {}
    last_molecule = {}

    def templates_for(idx):
        # the oracle's own parse, never handed to the code under test (template edits are mirrored onto it)
        if idx not in parsed:
            cfg = sc["configs"][idx]
            parsed[idx] = read_fragments(cfg["string"], all_atom=cfg["all_atom"])
        return parsed[idx]

    edited = set()

    def _edit_one(lib, cfg):
        for name in sorted(lib):
            graph = lib[name]
            for node in sorted(graph.nodes):
                data = graph.nodes[node]
                if cfg["all_atom"]:
                    plain = data.get("element") == "C" and not data.get("aromatic") and not data.get("charge") and \
                        all(graph.edges[node, nb].get("order", 1) == 1 for nb in graph[node])
                    if plain:
                        data["element"] = "Si"
                        return True
                elif not str(data.get("atomname", "")).endswith("x"):
                    data["atomname"] = str(data.get("atomname")) + "x"
                    return True
        return False

    def _apply_template_edit(idx):
        cfg = sc["configs"][idx]
        if sc.get("ctor") != "shared_dict":
            return
        if idx not in shared_dicts:
            shared_dicts[idx] = read_fragments(cfg["string"], all_atom=cfg["all_atom"])
        if _edit_one(shared_dicts[idx], cfg):
            _edit_one(templates_for(idx), cfg)      # the same edit on the oracle's own copy
            edited.add(idx)

    checked_templates = set()

    def check_templates_against_string(idx, event):
        """Reference by construction: the fragment set the sampler works with is the one the string denotes
        (elements / bead names, bonds with orders, every descriptor on the atom it was written after)."""
        if idx in checked_templates or idx in edited:
            return
        checked_templates.add(idx)
        cfg = sc["configs"][idx]
        lib = templates_for(idx)
        for tmpl in cfg["templates"]:
            graph = lib.get(tmpl["name"])
            if graph is None:
                violations.append({"oracle": "C16.template", "event": event["seq"], "detail": "fragment %s of the string is missing from the fragment set" % tmpl["name"]})
                continue
            nodes = sorted(graph.nodes)
            natoms = len(tmpl["atoms"])
            ion = len(nodes) - natoms          # a counter ion appended as a disconnected part comes last
            if ion not in (0, 1):
                violations.append({"oracle": "C16.template", "event": event["seq"],
                                   "detail": "fragment %s has %d atoms, the string writes %d" % (tmpl["name"], len(nodes), natoms)})
                continue
            for pos, atom in enumerate(tmpl["atoms"]):
                data = graph.nodes[nodes[pos]]
                label_ok = (data.get("atomname") == atom.get("name")) if "name" in atom else \
                    (data.get("element") == atom["el"] and int(data.get("charge", 0) or 0) == atom["charge"])
                want = tmpl["descs"].get(str(pos), [])
                got = list(data.get("bonding", []) or [])
                if not label_ok or got != want:
                    violations.append({"oracle": "C16.template C16.complement", "event": event["seq"],
                                       "detail": "fragment %s (%s): atom %d is %r with descriptors %r, the string writes %r with %r"
                                                 % (tmpl["name"], tmpl["text"], pos, data.get("element", data.get("atomname")), got,
                                                    atom.get("el", atom.get("name")), want)})
                    break
            got_edges = sorted((min(nodes.index(u), nodes.index(v)), max(nodes.index(u), nodes.index(v)), float(o if o is not None else 1))
                               for u, v, o in graph.edges(data="order") if nodes.index(u) < natoms and nodes.index(v) < natoms)
            want_edges = sorted((a, b, float(o)) for a, b, o in tmpl["bonds"])
            if got_edges != want_edges:
                violations.append({"oracle": "C16.template", "event": event["seq"],
                                   "detail": "fragment %s (%s): bonds %r, the string writes %r" % (tmpl["name"], tmpl["text"], got_edges[:8], want_edges[:8])})

    def construct(idx, seed):
        cfg = sc["configs"][idx]
        if sc.get("release"):
            import gc
            last_sampler.clear()
            last_molecule.clear()
            gc.collect()
            stats["fault:samplers-released-before-construct:fired"] = stats.get("fault:samplers-released-before-construct:fired", 0) + 1
        kwargs = {"polymer_reactivities": materialise(copy.deepcopy(cfg["polymer_reactivities"])), "all_atom": cfg["all_atom"], "seed": seed}
        if cfg["fragment_reactivities"]:
            kwargs["fragment_reactivities"] = materialise(copy.deepcopy(cfg["fragment_reactivities"]))
        if cfg["terminal_bonds"]:
            kwargs["terminal_bonds"] = list(cfg["terminal_bonds"])
        if cfg["fragment_masses"]:
            kwargs["fragment_masses"] = dict(cfg["fragment_masses"])
        if sc.get("ctor") == "shared_dict":
            # one fragment dict parsed once per history and handed to every sampler built from it
            if idx not in shared_dicts:
                shared_dicts[idx] = read_fragments(cfg["string"], all_atom=cfg["all_atom"])
            return MoleculeSampler(shared_dicts[idx], **kwargs)
        return MoleculeSampler.from_fragment_string(cfg["string"], **kwargs)

    def do_sample(idx, sampler, event, judge_masses=True):
        cfg = sc["configs"][idx]
        found = []
        _guard(check_templates_against_string, idx, event)
        monitor = StepMonitor(cfg, templates_for(idx), found)
        monitor_box["monitor"] = monitor
        draws0 = simrandom.draws if simrandom else 0
        try:
            kwargs = {"start_fragment": cfg["start_fragment"]} if cfg["start_fragment"] else {}
            mol = sampler.sample(cfg["target"], **kwargs)
        finally:
            monitor_box["monitor"] = None
            event["steps"] = monitor.steps
            event["traj"] = sha(jdump(monitor.trajectory))
            for key, value in monitor.probes.items():
                stats["probe:" + key] = stats.get("probe:" + key, 0) + value
            if simrandom is not None and monitor.steps and simrandom.draws == draws0:
                stats["probe:seam_lost"] = stats.get("probe:seam_lost", 0) + 1
        masses = getattr(sampler, "fragment_masses", None)
        if masses is None:
            stats["probe:fragment_masses_missing"] = stats.get("probe:fragment_masses_missing", 0) + 1
            masses = cfg["fragment_masses"] or {t["name"]: t.get("mass", 1.0) for t in cfg["templates"]}
        masses = dict(masses)
        _guard(check_molecule, mol, cfg, templates_for(idx), masses, cfg["target"], cfg["start_fragment"], found, stats)
        if judge_masses and cfg["all_atom"] and not cfg["fragment_masses"] and idx not in edited:
            for tmpl in cfg["templates"]:
                got = masses.get(tmpl["name"])
                if got is None or abs(got - tmpl["mass"]) > 1e-3 * max(1.0, tmpl["mass"]):
                    found.append({"oracle": "C17.mass", "detail": "mass of %s is %r, atoms plus implicit hydrogens weigh %.4f"
                                                                  % (tmpl["name"], got, tmpl["mass"])})
        for viol in found:
            violations.append(dict(viol, event=event["seq"]))
        stats["molecules"] = stats.get("molecules", 0) + 1
        if monitor.steps >= 3 and len({t[1] for t in monitor.trajectory}) >= 2:
            event["rich"] = True
        return mol

    for seq, op in enumerate(sc["ops"]):
        if only is not None and seq != only:
            if op["op"] == "edit_template" and seq < only:
                _apply_template_edit(op["cfg"])     # part of the input state of the referenced op
            continue
        event = {"seq": seq, "op": op["op"]}
        inj = None
        sampler = mol = None        # nothing of the previous op stays alive in this frame (see "release")
        try:
            kind = op["op"]
            if kind in ("cs", "cs_none"):
                idx = op["cfg"]
                if kind == "cs_none":
                    clock.now = int(op["clock"])
                    seed = None
                else:
                    seed = op["seed"]
                if op.get("abort_at"):
                    inj = AbortInjector(op["abort_at"])
                    with inj:
                        sampler = construct(idx, seed)
                        last_sampler[idx] = sampler
                        mol = do_sample(idx, sampler, event)
                else:
                    sampler = construct(idx, seed)
                    last_sampler[idx] = sampler
                    mol = do_sample(idx, sampler, event)
                event["dig"] = digest(mol)
                event["out"] = "ok"
                last_molecule[idx] = mol
            elif kind == "again":
                sampler = last_sampler.get(op["cfg"])
                if sampler is None:
                    event["out"] = "skipped"
                else:
                    mol = do_sample(op["cfg"], sampler, event, judge_masses=False)
                    event["dig"] = digest(mol)
                    event["out"] = "ok"
                    last_molecule[op["cfg"]] = mol
            elif kind == "foreign_rng":
                stdlib_random.seed(op["seed"])
                np.random.seed(op["seed"] % 2 ** 32)
                for _ in range(op["draws"]):
                    stdlib_random.random()
                    if simrandom is not None:
                        simrandom.random()
                event["out"] = "ok"
            elif kind == "clock_jump":
                clock.jump(op["delta"])
                event["out"] = "ok"
            elif kind == "edit_template":
                # the owner of the shared fragment dict edits a template between samplings: every sampler built
                # from the dict (and every further sample) must use the template as it is now
                _apply_template_edit(op["cfg"])
                event["out"] = "ok"
            elif kind == "scribble_last":
                # the caller owns what sample() returned and edits it in place
                mol = last_molecule.get(op["cfg"])
                if mol is None:
                    event["out"] = "skipped"
                else:
                    for node in list(mol.nodes):
                        data = mol.nodes[node]
                        for key, val in list(data.items()):
                            if isinstance(val, list):
                                if op["how"] == 0:
                                    val.clear()
                                else:
                                    val.append("$scribble1")
                            elif isinstance(val, dict):
                                val["scribble"] = 1
                        if op["how"] == 2:
                            data["element"] = "Xx"
                            data["atomname"] = "scribbled"
                            data["fragname"] = "scribbled"
                    for u, v in list(mol.edges):
                        mol.edges[u, v]["order"] = 9
                    if op["how"] == 1:
                        mol.remove_nodes_from(list(mol.nodes)[::2])
                    event["out"] = "ok"
            elif kind == "mass_check":
                from rdkit import Chem
                from rdkit.Chem import Descriptors
                text, name, smiles = MASS_FRAGMENTS[op["which"] % len(MASS_FRAGMENTS)]
                sampler = MoleculeSampler.from_fragment_string(text, polymer_reactivities={}, all_atom=True, seed=1)
                want = Descriptors.MolWt(Chem.MolFromSmiles(smiles))
                got = sampler.fragment_masses.get(name)
                if got is None or abs(got - want) > 2e-3 * want:
                    violations.append({"oracle": "C17.mass", "event": seq,
                                       "detail": "fragment %s of %s: mass %r, atoms plus implicit hydrogens weigh %.3f" % (name, text, got, want)})
                stats["mass_checks"] = stats.get("mass_checks", 0) + 1
                event["out"] = "ok"
            elif kind == "helper_call":
                # another part of the host program uses the package's public helpers on plain pysmiles graphs
                import pysmiles
                from cgsmiles.pysmiles_utils import rebuild_h_atoms, compute_mass
                if op["how"] in ("compute_mass_plain", "both"):
                    compute_mass(pysmiles.read_smiles(op["smiles"]))
                if op["how"] in ("rebuild_h_plain", "both"):
                    rebuild_h_atoms(pysmiles.read_smiles(op["smiles"]))
                event["out"] = "ok"
            elif kind == "own_parse_edit":
                # a user parses the same fragment string for their own purposes and works on the result
                # (e.g. completes the hydrogens of each fragment with the public helper, as the test-suite does);
                # graphs obtained from a separate read_fragments call are theirs to modify
                from cgsmiles.pysmiles_utils import rebuild_h_atoms
                cfg = sc["configs"][op["cfg"]]
                own = read_fragments(cfg["string"], all_atom=cfg["all_atom"])
                for name, graph in own.items():
                    if op["how"] == "rebuild_h" and cfg["all_atom"]:
                        rebuild_h_atoms(graph)
                    elif op["how"] == "attrs":
                        for node in graph.nodes:
                            graph.nodes[node]["weight"] = 7.5
                            graph.nodes[node]["fragname"] = "mine"
                    else:
                        for node in graph.nodes:
                            if graph.nodes[node].get("bonding"):
                                graph.nodes[node]["bonding"].clear()
                event["out"] = "ok"
            elif kind == "co_resolve":
                from cgsmiles.resolve import MoleculeResolver
                sampler = last_sampler.get(op["cfg"])
                cfg = sc["configs"][op["cfg"]]
                lib = sampler.fragment_dict if sampler is not None else templates_for(op["cfg"])
                names = [t["name"] for t in cfg["templates"]]
                base = "{" + "".join("[#%s]" % n for n in names[:2] * 2) + "}"
                res = MoleculeResolver.from_fragment_dicts(base, [lib], last_all_atom=cfg["all_atom"], legacy=False)
                coarse, fine = res.resolve()
                event["out"] = "ok"
                event["dig"] = digest(fine)
            else:
                raise HarnessError("unknown op %r" % kind)
        except SimInterrupt as exc:
            event["out"] = "aborted@" + str(exc)
        except HarnessError:
            raise
        except Exception as exc:  # noqa - dead ends are outcomes
            if raised_in_harness(exc):
                raise HarnessError("harness bug: %s: %s" % (type(exc).__name__, exc))
            event["out"] = _outcome(exc)
        finally:
            if inj is not None:
                import sys
                sys.settrace(None)
                event["armed"] = op["abort_at"]
                event["fired"] = bool(inj.fired)
        events.append(event)
    stats["clock_reads"] = clock.reads
    stats["clock_span_ns"] = clock.span
    if simrandom is not None:
        stats["entropy_draws"] = simrandom.draws
        stats["entropy_steered"] = simrandom.steered
        stats["entropy_edges"] = simrandom.edges_used
        stats["seed_calls"] = len(simrandom.seed_calls)
    return {"events": events, "violations": violations, "stats": stats}


# element-derived masses of curated fragments against an independent engine (RDKit average molecular weight of the
# fragment with its descriptor sites filled with hydrogen): aromatic [nH] rings, charged atoms, written hydrogens
MASS_FRAGMENTS = [
    ("{#A=[$]CC[$]c1cc[nH]c1}", "A", "CCc1cc[nH]c1"),
    ("{#A=[$]Cc1c[nH]cn1}", "A", "Cc1c[nH]cn1"),
    ("{#A=[>]CC[<]c1c[nH]c2ccccc12}", "A", "CCc1c[nH]c2ccccc12"),
    ("{#A=[$]CC[$]c1ccccc1}", "A", "CCc1ccccc1"),
    ("{#A=[$]C[N+](C)(C)C[$]}", "A", "C[N+](C)(C)C"),
    ("{#A=[<]COC([H])[>]}", "A", "COC"),
    ("{#A=[$]S(=O)(=O)[$]C}", "A", "CS(=O)(=O)[H]"),
    ("{#A=[$]c1ccncc1,#B=[$]C(=O)[O-]}", "B", "C(=O)[O-]"),
]

# strings whose written-out, annotated hydrogens must survive: (string, {weight: number of hydrogens written with it})
WRITTEN_H_STRINGS = [
    ("{[#A][#B]}.{#A=CC[!],#B=[!]C([H;0.5])O}", {0.5: 1}),
    ("{[#A][#B]}.{#A=C([H;0.25])C[!],#B=[!]C([H;0.5])([H;0.5])O}", {0.25: 1, 0.5: 2}),
    ("{[#A][#B][#A]}.{#A=[$]C([H;2.0])C,#B=[$]C([H;0.5])[$]}", {2.0: 2, 0.5: 1}),
]


# molecules whose formula is known by hand (reference by construction): every atom of the result counted
FORMULA_STRINGS = [
    ("{[#A]}.{#A=Cl}", {"Cl": 1, "H": 1}),                                                         # hydrogen chloride: a halogen without any bond
    ("{[#A].[#B]}.{#A=Br,#B=CC}", {"Br": 1, "C": 2, "H": 7}),                                      # hydrogen bromide next to ethane
    ("{[#A]}.{#A=I[$]}", {"I": 1, "H": 1}),                                                        # surplus descriptor on a halogen
    ("{[#A][#B]}.{#A=[$]CC[$],#B=[$]F}", {"C": 2, "F": 1, "H": 5}),                                # fluoroethane
    ("{[#A][#B]}.{#A=[$]Cc1c[nH]cc1,#B=[$]CC}", {"C": 7, "H": 11, "N": 1}),                       # 3-propylpyrrole
    ("{[#A]|3}.{#A=[$]CC[$]Cc1c[nH]cn1}", {"C": 18, "H": 26, "N": 6}),                            # vinyl-type trimer, imidazole pendants
    ("{[#A][#B]}.{#A=[$]C[N+](C)(C)C,#B=[$]CC(=O)[O-]}", {"C": 6, "H": 13, "N": 1, "O": 2}),       # betaine
    ("{[#A][#B]}.{#A=[$]c1c[nH]c2ccccc12,#B=[$]C}", {"C": 9, "H": 9, "N": 1}),                     # 3-methylindole
    ("{[#A][#B]}.{#A=[$]c1ccncc1,#B=[$]O}", {"C": 5, "H": 5, "N": 1, "O": 1}),                     # 4-hydroxypyridine
    ("{[#A][#B][#A]}.{#A=[$]C,#B=[$]S(=O)(=O)[$]}", {"C": 2, "H": 6, "O": 2, "S": 1}),             # dimethyl sulfone
    ("{[#A][#B]}.{#A=[$]C,#B=[$]OP(=O)(O)O}", {"C": 1, "H": 5, "O": 4, "P": 1}),                   # methyl phosphate
    ("{[#A][#B]}.{#A=CC[!],#B=[!]CO}", {"C": 2, "H": 6, "O": 1}),                                  # ethanol through a shared atom
    ("{[#A]1[#A][#A]1}.{#A=[$]CC[$]}", {"C": 6, "H": 12}),                                         # cyclohexane from three units
    ("{[#A][#B]}.{#A=[$]cccc[$],#B=[$]cc[$]}", {"C": 6, "H": 8}),                                  # one bond only: hexatriene
    ("{[#A]=[#B]}.{#A=[$]=CC,#B=[$]=C}", {"C": 3, "H": 6}),                                        # propene through a double bond
    ("{[#A][#B]}.{#A=[$]c1ccccc1,#B=[$]c1cc[nH]c1}", {"C": 10, "H": 9, "N": 1}),                   # 3-phenylpyrrole
    ("{[#A][#B][#A]}.{#A=[$]C(=O)O,#B=[$]c1ccc([$])cc1}", {"C": 8, "H": 6, "O": 4}),               # terephthalic acid
    ("{[#A][#B]}.{#A=[>]CC#N,#B=[<]N(C)C}", {"C": 4, "H": 8, "N": 2}),
    ("{[#A][#B]}.{#A=[$]C[S-],#B=[$]C[NH3+]}", {"C": 2, "H": 7, "N": 1, "S": 1}),
    ("{[#A]|4}.{#A=[>]C=C[<]}", {"C": 8, "H": 10}),                                                # octatetraene
    ("{[#A][#B]}.{#A=[$]C1CC1,#B=[$]C1=CC=C1}", {"C": 7, "H": 8}),
    ("{[#A][#B]}.{#A=[$]c1ccc[nH]1,#B=[$]c1ccc[nH]1}", {"C": 8, "H": 8, "N": 2}),                  # 2,2'-bipyrrole
    # blocks of a split aromatic unit written with lower-case atoms that stay outside any ring: surplus descriptors
    # and open valences are filled with hydrogen like anywhere else
    ("{[#S][#M]}.{#S=[$]s[$],#M=[$]C}", {"C": 1, "H": 4, "S": 1}),                                # methanethiol
    ("{[#A]|3}.{#A=[>]sC=C[<]}", {"C": 6, "H": 8, "S": 3}),
    ("{[#A][#B]}.{#A=[$]o[$],#B=[$]CC}", {"C": 2, "H": 6, "O": 1}),                               # ethanol
    ("{[#A][#B][#A]}.{#A=[$]C,#B=[$]cc[$]}", {"C": 4, "H": 8}),                                   # 2-butene
    ("{[#A][#B]}.{#A=[$]cc[$],#B=[$]O}", {"C": 2, "H": 4, "O": 1}),                               # vinyl alcohol
    ("{[#A][#B]}.{#A=[$]n[$],#B=[$]C}", {"C": 1, "H": 5, "N": 1}),                                # methylamine
    # tetrahedral centres written with @ / @@ and an implicit hydrogen
    ("{[#A][#B]}.{#A=N[C@@H](C)C(=O)[$],#B=[$]O}", {"C": 3, "H": 7, "N": 1, "O": 2}),              # alanine
    ("{[#A][#B]}.{#A=C[C@H](O)C[$],#B=[$]C}", {"C": 4, "H": 10, "O": 1}),                          # butan-2-ol
    # a hydrogen end group as a fragment of its own
    ("{[#Hter][#PEO]|3[#OH]}.{#PEO=[$]COC[$],#Hter=[$][H],#OH=[$]O}", {"C": 6, "H": 14, "O": 4}),
]


# shared atoms (squash operator) without written-out hydrogens: the rebuilt hydrogens of a shared atom carry its
# membership, name and weight like any other hydrogen
SQUASH_STRINGS = [
    "{[#A][#B]}.{#A=OC[!],#B=[!]CC}",
    "{[#A][#B]}.{#A=O[C;0.5][!],#B=[!]CC}",
    "{[#SC3]1[#TC5][#TC5]1}.{#SC3=Cc(c[!])c[!],#TC5=[!]ccc[!]}",
    "{[#A][#B][#A]}.{#A=[C;2.0][!]N,#B=[!]C[C;0.25][!]}",
    "{[#A]|3}.{#A=[!]CC([C;0.5])C[!]}",
    "{[#A][#B]}.{#A=[C;0.5][!]O,#B=[!][C;0.5]C}",
]


def resolve_strings(strings, run_seed=0):
    """Resolver-side C09 monitor on curated strings (free ions, salts, surplus descriptors)."""
    from cgsmiles.resolve import MoleculeResolver
    from .valence import check_valence
    out = []
    stats = {}
    for text in strings:
        try:
            # the constructor is part of the input: the whole string, or the base string plus fragment dicts read
            # beforehand (a library)
            if H("ctor", run_seed, text) % 2 == 0 or text.count("}.{") != 1:
                _, fine = MoleculeResolver.from_string(text, last_all_atom=True).resolve_all()
            else:
                base, block = text.split("}.{")
                library = MoleculeResolver.read_fragment_strings(["{" + block], last_all_atom=True)
                _, fine = MoleculeResolver.from_fragment_dicts(base + "}", library, last_all_atom=True).resolve_all()
                stats["resolver_strings_via_library"] = stats.get("resolver_strings_via_library", 0) + 1
        except Exception as exc:  # noqa
            if raised_in_harness(exc):
                raise
            stats["resolver_items_error"] = stats.get("resolver_items_error", 0) + 1
            continue
        for detail in check_valence(fine, explicit_h=text not in SQUASH_STRINGS, stats=stats):
            out.append({"oracle": "C09.valence", "detail": "resolver output of %s: %s" % (text, detail), "event": None})
        for known, formula in FORMULA_STRINGS:
            if known == text:
                from collections import Counter as _Counter
                got = dict(_Counter(fine.nodes[n].get("element") for n in fine.nodes))
                stats["formula_checked"] = stats.get("formula_checked", 0) + 1
                if got != formula:
                    out.append({"oracle": "C09.valence", "event": None,
                                "detail": "resolver output of %s has the formula %r, the molecule written is %r" % (text, got, formula)})
        for known, expect in WRITTEN_H_STRINGS:
            if known == text:
                for weight, count in expect.items():
                    have = sum(1 for n in fine.nodes if fine.nodes[n].get("element") == "H" and fine.nodes[n].get("weight") == weight)
                    if have < count:
                        out.append({"oracle": "C09.valence", "event": None,
                                    "detail": "resolver output of %s: %d hydrogens were written with weight %s, %d are left (written hydrogens must be kept)"
                                              % (text, count, weight, have)})
        stats["resolver_graphs"] = stats.get("resolver_graphs", 0) + 1
    return {"violations": out, "stats": stats}


def resolve_items(items):
    """Resolver-side C09 monitor: valence of resolved generated items."""
    from cgsmiles.resolve import MoleculeResolver
    from .valence import check_valence
    from . import graphcmp, admit
    out = []
    stats = {}
    for item in items:
        if admit.admit(item):
            stats["resolver_items_rejected"] = stats.get("resolver_items_rejected", 0) + 1
            continue
        try:
            # the driver is part of the input: all at once, stepped by hand, iterated, or the first levels by hand
            # and the remaining ones from resolve_iter()
            res = MoleculeResolver.from_string(item["multi"], last_all_atom=True)
            levels = item["n_levels"]
            how = H("driver", item["multi"]) % 4
            if how == 3 and levels < 2:
                how = 0
            if how == 0:
                _, fine = res.resolve_all()
            elif how == 1:
                for _ in range(levels):
                    _, fine = res.resolve()
            elif how == 2:
                _, fine = list(res.resolve_iter())[-1]
            else:
                done = 1 + H("done", item["multi"]) % (levels - 1)
                for _ in range(done):
                    res.resolve()
                steps = res.resolve_iter()
                for _ in range(levels - done):
                    _, fine = next(steps)
            stats["resolver_driver_%d" % how] = stats.get("resolver_driver_%d" % how, 0) + 1
        except Exception as exc:  # noqa
            if raised_in_harness(exc):
                raise
            stats["resolver_items_error"] = stats.get("resolver_items_error", 0) + 1
            continue
        for detail in check_valence(fine, explicit_h=bool(item.get("explicit_h")), stats=stats):
            out.append({"oracle": "C09.valence", "detail": "resolver output of %s: %s" % (item["multi"][:80], detail), "event": None})
        skel, problems = graphcmp.heavy_skeleton(fine)
        ok, why = graphcmp.isomorphic(skel, graphcmp.expected_skeleton(item["mol"]))
        if not ok:
            out.append({"oracle": "C09.valence", "detail": "resolver output differs from the constructed molecule incl. hydrogen counts: %s (%s)" % (why, item["multi"][:80]), "event": None})
        stats["resolver_graphs"] = stats.get("resolver_graphs", 0) + 1
    return {"violations": out, "stats": stats}


def execute(scenario):
    from .procs import fork_call
    sc = scenario
    result = {"status": "ok", "violations": [], "stats": {}}
    sim = fork_call(run_history, (sc, None), timeout=300)
    for viol in sim["violations"]:
        result["violations"].append(dict(viol, where="simulated history"))
    # -- reproducibility against pristine references ------------------------------
    refs = {}
    for seq, op in enumerate(sc["ops"]):
        if op["op"] in ("cs", "cs_none") and not op.get("abort_at"):
            key = jdump([op, [k for k, o in enumerate(sc["ops"][:seq]) if o["op"] == "edit_template"]])
            if key not in refs:
                solo = fork_call(run_history, (sc, seq), timeout=300)
                refs[key] = solo["events"][0]
                for viol in solo["violations"]:
                    result["violations"].append(dict(viol, where="pristine reference of op %d" % seq))
            ref = refs[key]
            ev = sim["events"][seq]
            if (ev.get("out"), ev.get("dig")) != (ref.get("out"), ref.get("dig")):
                what = "seed=None at clock %r" % op.get("clock") if op["op"] == "cs_none" else "seed %r" % op.get("seed")
                result["violations"].append({
                    "oracle": "C17.seed", "event": seq, "where": "history vs pristine process",
                    "detail": "construct-and-sample with %s gave %s/%s after this history but %s/%s alone in a pristine process"
                              % (what, ev.get("out"), ev.get("dig"), ref.get("out"), ref.get("dig"))})
    if sc.get("resolver_items"):
        extra = fork_call(resolve_items, (sc["resolver_items"],), timeout=300)
        for viol in extra["violations"]:
            result["violations"].append(dict(viol, where="resolver-side monitor"))
        for key, value in extra["stats"].items():
            sim["stats"][key] = sim["stats"].get(key, 0) + value
    if sc.get("resolver_strings"):
        extra = fork_call(resolve_strings, (sc["resolver_strings"], sc["run_seed"]), timeout=300)
        for viol in extra["violations"]:
            result["violations"].append(dict(viol, where="resolver-side monitor (curated strings)"))
        for key, value in extra["stats"].items():
            sim["stats"][key] = sim["stats"].get(key, 0) + value
    stats = result["stats"]
    stats.update(sim["stats"])
    events = sim["events"]
    stats["ops"] = len(events)
    for ev in events:
        stats["op:" + ev["op"]] = stats.get("op:" + ev["op"], 0) + 1
        out = ev.get("out", "")
        klass = "ok" if out == "ok" else ("aborted" if out.startswith("aborted") else ("skipped" if out == "skipped" else "dead-end"))
        if ev["op"] in ("cs", "cs_none", "again"):
            stats["outcome:" + klass] = stats.get("outcome:" + klass, 0) + 1
            if klass == "dead-end":
                stats["deadend:" + out.split(":")[1]] = stats.get("deadend:" + out.split(":")[1], 0) + 1
        if ev.get("armed"):
            stats["fault:abort:armed"] = stats.get("fault:abort:armed", 0) + 1
            if ev.get("fired"):
                stats["fault:abort:fired"] = stats.get("fault:abort:fired", 0) + 1
        if ev["op"] == "foreign_rng":
            stats["fault:foreign-rng:fired"] = stats.get("fault:foreign-rng:fired", 0) + 1
        if ev["op"] == "clock_jump":
            stats["fault:clock-jump:fired"] = stats.get("fault:clock-jump:fired", 0) + 1
        if ev["op"] == "co_resolve":
            stats["fault:cotenant:fired"] = stats.get("fault:cotenant:fired", 0) + 1
        if ev["op"] == "scribble_last" and ev.get("out") == "ok":
            stats["fault:scribble:fired"] = stats.get("fault:scribble:fired", 0) + 1
        if ev["op"] == "edit_template":
            stats["fault:template-edited-between-samplings:fired"] = stats.get("fault:template-edited-between-samplings:fired", 0) + 1
        if ev["op"] == "helper_call":
            stats["fault:foreign-helper-call:fired"] = stats.get("fault:foreign-helper-call:fired", 0) + 1
        if ev["op"] == "own_parse_edit":
            stats["fault:edit-own-parse:fired"] = stats.get("fault:edit-own-parse:fired", 0) + 1
    if stats.get("entropy_edges"):
        stats["fault:rng-edge:fired"] = stats["entropy_edges"]
    stats["trajectories"] = sorted({ev["traj"] for ev in events if ev.get("traj") and ev.get("steps")})
    stats["rich_trajectories"] = sorted({ev["traj"] for ev in events if ev.get("rich")})
    stats["growth_steps"] = sum(ev.get("steps", 0) for ev in events)
    stats["mode:" + sc["mode"]] = 1
    stats["ctor:" + sc.get("ctor", "from_string")] = 1
    result["digest"] = sha(jdump([[e.get(k) for k in ("seq", "op", "out", "dig", "steps", "traj")] for e in events]))
    result["nontrivial"] = bool(stats["rich_trajectories"])
    result["sample"] = {"mode": sc["mode"], "entropy": sc["entropy"],
                        "configs": [{k: c[k] for k in ("string", "polymer_reactivities", "fragment_reactivities", "terminal_bonds",
                                                       "fragment_masses", "target", "start_fragment", "all_atom")} for c in sc["configs"]],
                        "ops": sc["ops"], "outcomes": [e.get("out") for e in events], "steps": [e.get("steps") for e in events]}
    return result


def shrink_candidates(scenario):
    sc = scenario
    ops = sc["ops"]
    for k in range(len(ops)):
        if len(ops) > 1:
            new = copy.deepcopy(sc)
            del new["ops"][k]
            yield new
    for k, op in enumerate(ops):
        if op.get("abort_at"):
            new = copy.deepcopy(sc)
            new["ops"][k].pop("abort_at")
            yield new
    if sc["mode"] == "owned":
        new = copy.deepcopy(sc)
        new["mode"] = "seed"
        yield new
        if sc["entropy"]["steer"] or sc["entropy"]["edge"]:
            new = copy.deepcopy(sc)
            new["entropy"]["steer"] = 0.0
            new["entropy"]["edge"] = 0.0
            yield new
    for idx, cfg in enumerate(sc["configs"]):
        if cfg["target"] > 0:
            new = copy.deepcopy(sc)
            new["configs"][idx]["target"] = cfg["target"] / 2 if cfg["target"] > 20 else 0.0
            yield new
        for field, empty in (("fragment_reactivities", {}), ("terminal_bonds", []), ("polymer_reactivities", {}), ("start_fragment", None)):
            if cfg[field]:
                new = copy.deepcopy(sc)
                new["configs"][idx][field] = empty
                yield new
    if sc.get("resolver_items"):
        new = copy.deepcopy(sc)
        new["resolver_items"] = []
        yield new
    if sc.get("resolver_strings"):
        new = copy.deepcopy(sc)
        new["resolver_strings"] = []
        yield new


# ---------------------------------------------------------------------------
# exhaustive abort-point enumeration (C17): an aborted construct-and-sample over a shared
# fragment dict must leave nothing behind that changes the next seeded construct-and-sample
# ---------------------------------------------------------------------------

def enum_item(item_seed):
    rng = rng_for("sampler-abort-enum", item_seed)
    cfg = None
    for _ in range(50):
        cfg = gen_sampler.gen_config(rng, all_atom=rng.random() < 0.7, tier="quick")
        if not cfg["wild"] and 0 < cfg["target"]:
            break
    # keep the enumerated op small: a handful of growth steps
    masses = cfg["fragment_masses"] or {t["name"]: t.get("mass", 50.0) for t in cfg["templates"]}
    used = [masses[t["name"]] for t in cfg["templates"] if t["name"] in masses]      # the table may list other names too
    cfg["target"] = 3.5 * (sum(used) / len(used))
    return {"cfg": cfg, "seed": rng.randrange(10 ** 9), "ctor": rng.choice(["shared_dict", "from_string"])}


def enum_scenario(item, k, which="cs"):
    ops = [{"op": "cs", "cfg": 0, "seed": item["seed"], "abort_at": k}, {"op": "cs", "cfg": 0, "seed": item["seed"]}]
    return {"family": "sampler", "prop": "C17", "run_seed": H("sampler-enum", item["cfg"]["string"], item["seed"], k),
            "configs": [item["cfg"]], "mode": "seed", "ctor": item["ctor"], "entropy": {"key": 0, "steer": 0.0, "edge": 0.0},
            "ops": ops, "faults_enabled": ["abort"], "enum": {"k": k, "which": which}}


def _probe(item):
    from .seams import AbortInjector
    sc = enum_scenario(item, 0)
    sc["ops"] = [{"op": "cs", "cfg": 0, "seed": item["seed"]}]
    with AbortInjector(0) as inj:
        out = run_history(sc)
    ev = out["events"][0]
    return {"cs": inj.count, "ref": [ev.get("out"), ev.get("dig")], "steps": ev.get("steps")}


def enum_probe(item):
    return _probe(item)


def _enum_point(item, k, ref):
    sc = enum_scenario(item, k)
    out = run_history(sc)
    first, second = out["events"]
    violations = [v for v in out["violations"] if v.get("event") == 1]
    if [second.get("out"), second.get("dig")] != list(ref):
        violations.append({"oracle": "C17.seed", "event": 1,
                           "detail": "after a construct-and-sample aborted at line %d (%s) the same seed gave %s/%s, pristine reference %s/%s"
                                     % (k, first.get("out"), second.get("out"), second.get("dig"), ref[0], ref[1])})
    fired = bool(first.get("fired"))
    return {"fired": fired, "where": first["out"].split("@")[1] if fired and "@" in first.get("out", "") else None, "violations": violations}


def enum_points(item, which, ks, ref):
    from .procs import fork_call
    failures = []
    fired = 0
    landing = {}
    for k in ks:
        out = fork_call(_enum_point, (item, k, ref), timeout=120)
        if out["fired"]:
            fired += 1
            landing[out["where"]] = landing.get(out["where"], 0) + 1
        if out["violations"]:
            failures.append({"k": k, "violations": out["violations"]})
    return {"points": len(ks), "fired": fired, "failures": failures, "landing": landing}
