"""
Maps property ids to scenario engines and runs one task inside a worker.
"""
import time
import importlib

from .core import H, jdump, sha

ENGINES = {
    "C06": "sim.scen_resolver",
    "C12": "sim.scen_resolver",
    "C09": "sim.scen_sampler",
    "C16": "sim.scen_sampler",
    "C17": "sim.scen_sampler",
    "C18": "sim.scen_rdkit",
    "C19": "sim.scen_layout",
}

_loaded = {}


def engine(prop):
    name = ENGINES[prop]
    if name not in _loaded:
        _loaded[name] = importlib.import_module(name)
    return _loaded[name]


# import the code under test once per worker so forks start warm
try:  # pragma: no cover
    import cgsmiles  # noqa
    import cgsmiles.resolve  # noqa
    import cgsmiles.sample  # noqa
    import cgsmiles.write_cgsmiles  # noqa
    IMPORT_ERROR = None
except Exception as exc:  # noqa
    IMPORT_ERROR = "%s: %s" % (type(exc).__name__, exc)


def relevant(violations, prop):
    return [v for v in violations if prop in v["oracle"]]


def match_known(prop, violation, findings):
    """A known finding is matched on its specific oracle + signature, never on the property alone."""
    for finding in findings or []:
        if finding.get("property") != prop:
            continue
        needle = finding.get("match", {})
        if not needle.get("oracle") or not needle.get("signature"):
            continue
        if needle["oracle"] in violation.get("oracle", "") and needle["signature"] == (violation.get("signature") or ""):
            return finding
    return None


def violation_class(violation, prop):
    names = [tok for tok in violation["oracle"].split() if tok.startswith(prop)]
    return names[0] if names else violation["oracle"]


def minimise(mod, scenario, prop, klass, budget_s=40.0, max_steps=400, known=None):
    """Greedy delta debugging over the engine's shrink candidates."""
    start = time.time()
    current = scenario
    current_violation = None
    steps = 0
    improved = True
    while improved and time.time() - start < budget_s and steps < max_steps:
        improved = False
        for cand in mod.shrink_candidates(current):
            if time.time() - start > budget_s or steps >= max_steps:
                break
            steps += 1
            try:
                res = mod.execute(cand)
            except Exception:  # noqa
                continue
            if res.get("status") != "ok":
                continue
            hits = [v for v in relevant(res["violations"], prop)
                    if violation_class(v, prop) == klass and not match_known(prop, v, known)]
            if hits:
                current_violation = hits[0]
                current = res.get("scenario", cand)
                improved = True
                break
    return current, steps, current_violation


def run_task(task):
    if IMPORT_ERROR:
        return {"harness_error": "cannot import cgsmiles from the working tree: " + IMPORT_ERROR}
    prop = task["prop"]
    mod = engine(prop)
    mode = task.get("mode", "run")
    t0 = time.time()
    if mode == "enum_probe":
        from .procs import fork_call
        item = mod.enum_item(task["item_seed"])
        return {"status": "probe", "probe": fork_call(mod.enum_probe, (item,), timeout=120), "item_seed": task["item_seed"]}
    if mode == "enum_points":
        item = mod.enum_item(task["item_seed"])
        out = mod.enum_points(item, task["which"], task["ks"], task["ref"])
        out.update({"status": "enum", "item_seed": task["item_seed"], "which": task["which"],
                    "string": item["multi"] if "multi" in item else item["cfg"]["string"]})
        if out["failures"]:
            first = out["failures"][0]
            out["replay"] = {"property": prop, "class": violation_class(first["violations"][0], prop),
                             "violation": first["violations"][0], "run_seed": None,
                             "scenario": mod.enum_scenario(item, first["k"], task["which"])}
        return out
    if mode == "run":
        run_seed = H(task["seed"], prop, task["run"])
        scenario = mod.generate(run_seed, prop, task.get("tier", "quick"))
        scenario["verif_seed"] = task["seed"]
        scenario["run_index"] = task["run"]
    else:
        scenario = task["scenario"]
        run_seed = scenario.get("run_seed")
    res = mod.execute(scenario)
    final = res.pop("scenario", scenario)
    out = {"status": res["status"], "digest": res.get("digest"), "stats": res.get("stats", {}),
           "nontrivial": res.get("nontrivial", False), "sample": res.get("sample"),
           "run_seed": run_seed, "reject_reasons": res.get("reject_reasons")}
    if task.get("return_scenario"):
        out["scenario"] = final
    known = task.get("known") or []
    all_viols = relevant(res.get("violations", []), prop)
    viols = [v for v in all_viols if not match_known(prop, v, known)]
    out["known_hits"] = sorted({match_known(prop, v, known)["id"] for v in all_viols if match_known(prop, v, known)})
    out["violations"] = viols[:10]
    out["other_violations"] = [v for v in res.get("violations", []) if prop not in v["oracle"]][:5]
    if viols and mode == "run" and task.get("minimise", True):
        klass = violation_class(viols[0], prop)
        small, steps, small_violation = minimise(mod, final, prop, klass, budget_s=task.get("min_budget", 40.0), known=known)
        out["replay"] = {"property": prop, "class": klass, "violation": small_violation or viols[0],
                         "violation_unminimised": viols[0], "run_seed": run_seed,
                         "verif_seed": task["seed"], "run_index": task["run"],
                         "scenario": small, "scenario_unminimised": final, "minimise_steps": steps}
    elif viols and mode == "replay":
        out["class"] = violation_class(viols[0], prop)
        out["classes"] = sorted({violation_class(v, prop) for v in viols})
    out["wall"] = time.time() - t0
    return out
