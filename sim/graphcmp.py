"""
Labelled-graph comparison used by the composition oracles.

Molecules are reduced to their heavy-atom skeleton with the hydrogen count as
part of the node label (every hydrogen has degree one, so nothing is lost),
colours are refined jointly on both graphs (a different colour histogram is a
definite 'not isomorphic'), and VF2 confirms with the refined colours.
"""
import networkx as nx
from .core import sha


def heavy_skeleton(graph, name_attr="element"):
    """
    Heavy-atom skeleton of an all-atom networkx molecule: node label
    (element, charge, number of H neighbours), edge label order.
    Returns (skeleton, problems) where problems lists hydrogens that are not
    bonded to exactly one atom.
    """
    skel = nx.Graph()
    problems = []

    def attached_h(node):
        if graph.nodes[node].get("element") != "H" or graph.degree(node) != 1:
            return False
        return graph.nodes[next(iter(graph[node]))].get("element") != "H"

    for node, data in graph.nodes(data=True):
        if data.get("element") == "H" and graph.degree(node) != 1:
            problems.append(("H-degree", node, graph.degree(node)))
        if attached_h(node):
            continue
        nh = sum(1 for nb in graph[node] if attached_h(nb))
        skel.add_node(node, label=(data.get(name_attr), int(data.get("charge", 0) or 0), nh))
    for u, v, data in graph.edges(data=True):
        if u in skel and v in skel:
            skel.add_edge(u, v, order=_norm_order(data.get("order", 1)))
    return skel, problems


def _norm_order(order):
    try:
        value = float(order)
    except (TypeError, ValueError):
        return repr(order)
    return int(value) if value == int(value) else value


def named_graph(graph, name_attr):
    out = nx.Graph()
    for node, data in graph.nodes(data=True):
        out.add_node(node, label=(data.get(name_attr),))
    for u, v, data in graph.edges(data=True):
        out.add_edge(u, v, order=_norm_order(data.get("order", 1)))
    return out


def refine(graphs, rounds=None):
    """Joint colour refinement; returns list of dict node -> colour (str)."""
    colours = [{n: sha(repr(g.nodes[n].get("label"))) for n in g} for g in graphs]
    rounds = rounds or 6
    for _ in range(rounds):
        new = []
        for g, col in zip(graphs, colours):
            cur = {}
            for n in g:
                neigh = sorted((repr(g.edges[n, m].get("order")), col[m]) for m in g[n])
                cur[n] = sha(col[n] + repr(neigh))
            new.append(cur)
        colours = new
    return colours


def isomorphic(g1, g2):
    """
    Returns (verdict, reason): verdict True / False; labelled graphs with node
    attr 'label' and edge attr 'order'.
    """
    if len(g1) != len(g2):
        return False, "node count %d != %d" % (len(g1), len(g2))
    if g1.number_of_edges() != g2.number_of_edges():
        return False, "edge count %d != %d" % (g1.number_of_edges(), g2.number_of_edges())
    c1, c2 = refine([g1, g2])
    h1 = sorted(c1.values())
    h2 = sorted(c2.values())
    if h1 != h2:
        lab1 = sorted(repr(g1.nodes[n]["label"]) for n in g1)
        lab2 = sorted(repr(g2.nodes[n]["label"]) for n in g2)
        if lab1 != lab2:
            only1 = _multiset_diff(lab1, lab2)
            only2 = _multiset_diff(lab2, lab1)
            return False, "node labels differ: only-left %s only-right %s" % (only1[:6], only2[:6])
        return False, "refined colour histograms differ (same labels, different connectivity/orders)"
    nx.set_node_attributes(g1, c1, "colour")
    nx.set_node_attributes(g2, c2, "colour")
    matcher = nx.isomorphism.GraphMatcher(
        g1, g2,
        node_match=lambda a, b: a["colour"] == b["colour"],
        edge_match=lambda a, b: a.get("order") == b.get("order"))
    if matcher.is_isomorphic():
        return True, "ok"
    return False, "VF2 found no label/order preserving bijection"


def _multiset_diff(a, b):
    from collections import Counter
    diff = Counter(a) - Counter(b)
    return sorted(diff.elements())


def expected_skeleton(mol):
    """Skeleton of a constructed item molecule (item['mol']); written-out hydrogens are folded into the counts."""
    skel = nx.Graph()
    for idx, atom in enumerate(mol["atoms"]):
        if "name" in atom:
            skel.add_node(idx, label=(atom["name"],))
        elif atom["el"] == "H":
            continue
        else:
            skel.add_node(idx, label=(atom["el"], int(atom["charge"]), int(mol["hcount"][idx])))
    for i, j, order in mol["bonds"]:
        if i in skel and j in skel:
            skel.add_edge(i, j, order=_norm_order(order))
    return skel
