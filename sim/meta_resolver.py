"""Evidence aggregation for the resolver simulation (C06, C12)."""
from collections import Counter

ASSUMPTIONS = [
    "exploration, not proof: schedules, abort points and workload items are sampled from a seeded PRNG",
    "interleaving granularity is one public API call (no property states thread safety)",
    "reference by isolation assumes a fork of a warm interpreter that never executed cgsmiles code is pristine",
    "composition oracle is exact only on generated leaf-decomposition items (no shared atoms, no virtual nodes, no multipliers inside fragments); repeat/curated items take part in the history oracles only",
    "real code: cgsmiles, pysmiles, networkx, numpy; stubs: none in this engine (sampler co-tenant uses the real global random)",
    "generated items pass an admission self-check with the repository's own readers; rejected items are counted, never judged",
]

RULE = ("one evaluation = one simulated run: 1-2 workload items (generated leaf decomposition with 1-4 fragment levels, "
        "repeat-unit block copolymer, or curated string), 2-8 clients (resolver clients through from_string/from_graph/"
        "from_fragment_dicts driven by resolve()/resolve_iter()/resolve_all() over shared fragment libraries, sampler/"
        "writer/grower/editor/malformed/foreign-RNG co-tenants) interleaved op by op by a seeded scheduler, with aborts at a "
        "sampled cgsmiles line, scribbles on returned graphs, abandoned iterators and library growth; every client is also "
        "run alone in a pristine fork and every item once through from_string+resolve() as reference. distinct = distinct "
        "hash of the (client, op) sequence; non-trivial = at least two clients share a library object or at least one fault fired")


def coverage(prop, executed, rejected, tier):
    total = Counter()
    families = Counter()
    inter = set()
    nontrivial = set()
    for res in executed:
        stats = res.get("stats", {})
        for key, value in stats.items():
            if isinstance(value, (int, float)) and not isinstance(value, bool):
                total[key] += value
        for fam in stats.get("families", []):
            families[fam] += 1
        inter.add(stats.get("interleaving"))
        if res.get("nontrivial"):
            nontrivial.add(stats.get("interleaving"))
    samples = [res["sample"] for res in executed[:3] if res.get("sample")]
    faults = {k: int(v) for k, v in sorted(total.items()) if k.startswith("fault:")}
    return {
        "evaluations": len(executed),
        "productive_results_judged": int(total.get("op:resolve", 0) + total.get("op:iter_next", 0) + total.get("op:resolve_all", 0)),
        "distinct_nontrivial": len(nontrivial),
        "rule": RULE,
        "samples": samples,
        "distinct_interleavings": len(inter),
        "ops_executed": int(total.get("ops", 0)),
        "op_histogram": {k[3:]: int(v) for k, v in sorted(total.items()) if k.startswith("op:")},
        "histories_with_debug_logging": int(total.get("env:debug-logging", 0)),
        "faults_armed_fired": faults,
        "abort_landing_files": {k[6:]: int(v) for k, v in sorted(total.items()) if k.startswith("abort@")},
        "item_families": dict(families),
        "fragment_levels_histogram": {k[7:]: int(v) for k, v in sorted(total.items()) if k.startswith("levels:")},
        "items_with_composition_oracle": int(total.get("composition_items", 0)),
        "items_where_readers_disagree_with_generator_intent": int(total.get("admission_mismatch", 0)),
        "items_resolved_with_legacy_false": int(total.get("items_label_insensitive_convention", 0)),
        "heavy_atoms_in_composition_items": int(total.get("composition_atoms", 0)),
        "constructor_driver_paths": {k[5:]: int(v) for k, v in sorted(total.items()) if k.startswith("path:")},
        "valence_graphs_monitored": int(total.get("valence_graphs", 0)),
        "valence_atoms_judged": int(total.get("valence_judged", 0)),
        "valence_atoms_unjudged": int(total.get("valence_unjudged", 0)),
        "simulated_time": "not applicable in this engine (the resolver reads no clock)",
        "components": {"real": ["cgsmiles", "pysmiles", "networkx", "numpy"], "stubbed": []},
    }
