import json
NA = {
 "C01": "pure function of the input string (molecule x partition x rendering); no RNG, clock, shared state, schedule or fault in the statement or its code path, so there is nothing for a simulator to own",
 "C02": "pure relation between three outputs of one call; its 'configurations' are two static flags, not environment nondeterminism (the membership bookkeeping is only monitored inside the C06 runs, without a claim)",
 "C03": "pure function of base graph and fragment set; legacy on/off is an argument, not a schedule or fault",
 "C04": "pure scanner over one string; no state survives the call",
 "C05": "pure metamorphic relation between two input strings",
 "C07": "pure function graph -> string -> graph; hash randomisation could only enter through string node keys, which no reader in the package produces",
 "C08": "pure function of the fragment set / string",
 "C10": "pure function of the input string (squash operator)",
 "C11": "pure function of the input string (virtual nodes, zero-order edges)",
 "C13": "pure character state machine whose state is local to one call",
 "C14": "pure; the dialect signature objects are immutable module constants and the one mutable default (arg_to_fullname={}) is never written",
 "C15": "pure function of the input string (stereo annotations)",
 "C20": "pure: the 'fault' is a position in the input string, not an injected runtime fault; malformed strings appear in the C06/C12 simulations only to make one client's call fail mid-history, and what they raise is logged, not judged",
}
def chk(pid, text, note, technique, ref):
    return {"property_id": pid,
            "quick_cmd": "/venv/bin/python /verif/check.py %s --tier quick" % pid,
            "thorough_cmd": "/venv/bin/python /verif/check.py %s --tier thorough" % pid,
            "evidence_file": "/verif/evidence/%s.json" % pid,
            "replay_cmd_template": "/venv/bin/python /verif/check.py %s --replay {path}" % pid,
            "engine": "sim",
            "level_claimed": {"category": "exploration", "text": text, "design_ref": ref},
            "level_note": note, "technique": technique}

CHECKS = [
 chk("C06", "Seeded search over histories of resolver objects: three drivers (resolve / resolve_iter / resolve_all) and three constructors over shared fragment libraries, interleaved op by op with co-tenants, aborts at sampled lines, scribbles, abandoned iterators and library growth. Each level of every driver is compared with a pristine per-item reference, each client with its solo run in a pristine fork, each step's coarse graph with the previous fine graph, and the last level with the flattened string and with the molecule the generator constructed. Evidence, not proof: the quantifier over all groupings is sampled.",
     "Trusted: fork isolation of a warm interpreter; the generator's own molecule model and SMILES/CGsmiles writers (items are cross-checked by an admission self-check); networkx VF2. The composition clause is decided only on generated leaf-decomposition items.",
     "deterministic simulation: seeded op-level scheduler + fault injection (abort/scribble/abandon/grow) + isolation reference + reference by construction", "DESIGN.md 4/C06"),
 chk("C12", "Seeded search over call histories sharing fragment dictionaries within one process, under several PYTHONHASHSEED values in fresh interpreters: numbering/naming invariants on every returned graph, byte-identical canonical dumps across constructors, permuted definition blocks, schedules and co-tenants, library snapshots after every event including after aborts at sampled lines and scribbles on returned graphs, event-log digests identical across hash seeds.",
     "Trusted: canonical dump covers all node/edge attributes reachable from returned graphs; fork isolation; only libraries that were passed in are judged for modification.",
     "deterministic simulation: seeded op-level scheduler + fault injection + library snapshot invariant + cross-interpreter (hash seed) log comparison", "DESIGN.md 4/C12"),
 chk("C09", "Sampler half decided by seeded search over growth trajectories in all-atom mode (seed mode and owned-entropy mode, histories with repeated sample(), aborts, co-tenants): every returned molecule is judged by an independent valence table, hydrogens must have degree one and carry their atom's fragid/fragname/weight. Resolver half only monitored: the same oracle runs on 1-2 generated leaf-decomposition items per run (and inside the C06/C12 runs) and on the constructed hydrogen counts; no search over resolvable strings is claimed because that half is a pure function of the input.",
     "Trusted: the harness' valence table (C 4; N 3,5; O 2; S 2,4,6; P 3,5; halogens 1; charged centres by isoelectronic shift); atoms whose heavy-atom bonds do not fit the table are not judged and are counted. Workload keeps descriptors off aromatic ring atoms.",
     "deterministic simulation of the sampler's random growth process (owned entropy / seeds / history faults) with an independent valence oracle; resolver side monitored only", "DESIGN.md 4/C09"),
 chk("C16", "Seeded search over random growth trajectories of the sampler: the simulator owns the entropy under stdlib random (steering into smallest-weight, boundary and first/last options) or the seed, and drives histories with repeated sample(), seed=None through a simulated clock, foreign RNG use, aborts and resolver co-tenants. Every growth step is checked against a small descriptor model (one copy, one bond, complementary descriptors of equal order, both consumed once, nothing else changed) and every returned molecule post hoc (connected, tree of copies, copies match templates, descriptor accounting, canonical numbering/membership, valence).",
     "Trusted: the harness' descriptor model; the growth-step monitor hooks the public add_fragment method (post-hoc oracles do not need it). Dead ends are outcomes, not verdicts.",
     "deterministic simulation of a random process: owned-entropy SimRandom + seeded histories + step monitor against a reference model + post-hoc structural oracles", "DESIGN.md 4/C16"),
 chk("C17", "Same simulated histories as C16 with the oracles of C17: stopping rule on the added masses, element-derived masses against an independent mass table, explicit zero reactivities never chosen (also under steered and boundary entropy values), terminal rules per atom, and reproducibility of atomic construct-and-sample ops against a pristine reference process after arbitrary histories (other seeds, foreign RNG use, aborted calls, co-tenants), at any simulated clock value and across interpreters with different PYTHONHASHSEED.",
     "Trusted: construct-and-sample is judged as one atomic op (interleaving another construction between the two is outside the statement); only explicit zeros are judged; masses within 1e-3 relative of the harness' table.",
     "deterministic simulation: owned entropy with steering and edge values, simulated clock, history faults, isolation reference, cross-interpreter log comparison", "DESIGN.md 4/C17"),
 chk("C18", "RDKit's stochastic embedder is put behind a seam (cgsmiles.rdkit.AllChem): a stub engine that hands every atom index a unique coordinate decides 'each node stores the coordinates of its own atom' literally for every node ordering and relabelling; the real engine with a simulator-supplied seed decides bonding distances; round trips with and without conformer, forward map against a harness-computed weighted average, translation equivariance, over short histories of bridge calls on resolved multi-fragment molecules (weights, shared atoms, rings, hydrogens interleaved). Three defects found this way were repaired (fix: commits), one is a listed known finding.",
     "Trusted: RDKit itself; the 0.7-2.3 A window for the workload alphabet; round-trip equality by labelled-graph isomorphism. Known finding C18-localised-ring-aromatised is matched on oracle+signature computed from the failing input.",
     "deterministic simulation with the external stochastic engine behind a seam: attributable-coordinate stub + seeded real engine, seeded histories and node-order permutations", "DESIGN.md 4/C18"),
 chk("C19", "vespr_layout draws its start configuration from the numpy global generator; the simulator owns that state (sets it from the run's PRNG or lets a history of earlier layouts and foreign draws decide it, digests logged) and searches over graphs (chains, stars, rings, fused rings, trees with ring closures, resolved molecules with hydrogens and ez_isomer annotations), bond-length settings and relabellings; oracle: one finite 2D position per node, no bonded pair coincides, mean bond length equals the request.",
     "Trusted: numpy's global generator is the layout's only entropy source (checked by state digests and by the cross-interpreter determinism pairs); tolerance 1e-7 relative on the mean bond length.",
     "deterministic simulation of a randomised algorithm: owned global RNG state + history faults (foreign draws, inherited state) + relabelling under identical state", "DESIGN.md 4/C19"),
]

m = {
 "version": 1,
 "setup_cmd": "/venv/bin/python /verif/check.py selftest --setup",
 "hooks": {"guard": "CGSMILES_VERIF", "enable": "none needed: every seam is reachable from outside (module attributes cgsmiles.sample.random / .time, cgsmiles.rdkit.AllChem, numpy global RNG, PYTHONHASHSEED, sys.settrace); checks import /repo's working tree directly with PYTHONPATH=/repo PBR_VERSION=0.0.0",
           "baseline_off_cmd": "cd /repo && /venv/bin/python -m pytest -ra -q -p no:cacheprovider --timeout=900 --continue-on-collection-errors",
           "source_commits": [], "add_only": True},
 "engines": [{"name": "sim", "path": "/verif/sim", "serves_properties": [], "kind_free_text": "deterministic simulation with fault injection: seeded scheduler over clients/ops, owned entropy/clock/embedder seams, fork-per-run isolation references, abort injection via sys.settrace, ddmin-minimised replay files"}],
 "checks": CHECKS,
 "notes": "See DESIGN.md. Exit codes: 0 held / 1 VIOLATION / 2 harness error.",
 "not_applicable": [{"property_id": k, "reason": v} for k, v in sorted(NA.items())],
}
json.dump(m, open('/verif/MANIFEST.json','w'), indent=1)
