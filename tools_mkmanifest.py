import json
NA = {
 "C01": "pure function of the input string (molecule x partition x rendering); no RNG, clock, shared state, schedule or fault in the statement or its code path, so there is nothing for a simulator to own",
 "C02": "pure relation between three outputs of one call; its 'configurations' are two static flags, not environment nondeterminism (the membership bookkeeping is only monitored inside the C06 runs, without a claim)",
 "C03": "pure function of base graph and fragment set; legacy on/off is an argument, not a schedule or fault",
 "C04": "pure scanner over one string; no state survives the call",
 "C05": "pure metamorphic relation between two input strings",
 "C07": "pure function graph -> string -> graph; hash randomisation could only enter through string node keys, which no reader in the package produces",
 "C08": "pure function of the fragment set / string",
 "C10": "pure function of the input string (squash operator)",
 "C11": "pure function of the input string (virtual nodes, zero-order edges)",
 "C13": "pure character state machine whose state is local to one call",
 "C14": "pure; the dialect signature objects are immutable module constants and the one mutable default (arg_to_fullname={}) is never written",
 "C15": "pure function of the input string (stereo annotations)",
 "C20": "pure: the 'fault' is a position in the input string, not an injected runtime fault; malformed strings appear in the C06/C12 simulations only to make one client's call fail mid-history, and what they raise is logged, not judged",
}
m = {
 "version": 1,
 "setup_cmd": "/venv/bin/python /verif/check.py selftest --setup",
 "hooks": {"guard": "CGSMILES_VERIF", "enable": "none needed: every seam is reachable from outside (module attributes cgsmiles.sample.random / .time, cgsmiles.rdkit.AllChem, numpy global RNG, PYTHONHASHSEED, sys.settrace); checks import /repo's working tree directly with PYTHONPATH=/repo PBR_VERSION=0.0.0",
           "baseline_off_cmd": "cd /repo && /venv/bin/python -m pytest -ra -q -p no:cacheprovider --timeout=900 --continue-on-collection-errors",
           "source_commits": [], "add_only": True},
 "engines": [{"name": "sim", "path": "/verif/sim", "serves_properties": [], "kind_free_text": "deterministic simulation with fault injection: seeded scheduler over clients/ops, owned entropy/clock/embedder seams, fork-per-run isolation references, abort injection via sys.settrace, ddmin-minimised replay files"}],
 "checks": [],
 "notes": "See DESIGN.md. Exit codes: 0 held / 1 VIOLATION / 2 harness error.",
 "not_applicable": [{"property_id": k, "reason": v} for k, v in sorted(NA.items())],
}
json.dump(m, open('/verif/MANIFEST.json','w'), indent=1)
