import json
NA = {
 "C01": "pure function of the input string (molecule x partition x rendering); no RNG, clock, shared state, schedule or fault in the statement or its code path, so there is nothing for a simulator to own",
 "C02": "pure relation between three outputs of one call; its 'configurations' are two static flags, not environment nondeterminism (the membership bookkeeping is only monitored inside the C06 runs, without a claim)",
 "C03": "pure function of base graph and fragment set; legacy on/off is an argument, not a schedule or fault",
 "C04": "pure scanner over one string; no state survives the call",
 "C05": "pure metamorphic relation between two input strings",
 "C07": "pure function graph -> string -> graph; hash randomisation could only enter through string node keys, which no reader in the package produces",
 "C08": "pure function of the fragment set / string",
 "C10": "pure function of the input string (squash operator)",
 "C11": "pure function of the input string (virtual nodes, zero-order edges)",
 "C13": "pure character state machine whose state is local to one call",
 "C14": "pure; the dialect signature objects are immutable module constants and the one mutable default (arg_to_fullname={}) is never written",
 "C15": "pure function of the input string (stereo annotations)",
 "C20": "pure: the 'fault' is a position in the input string, not an injected runtime fault; malformed strings appear in the C06/C12 simulations only to make one client's call fail mid-history, and what they raise is logged, not judged",
}
def chk(pid, text, note, technique, ref):
    return {"property_id": pid,
            "quick_cmd": "/venv/bin/python /verif/check.py %s --tier quick" % pid,
            "thorough_cmd": "/venv/bin/python /verif/check.py %s --tier thorough" % pid,
            "evidence_file": "/verif/evidence/%s.json" % pid,
            "replay_cmd_template": "/venv/bin/python /verif/check.py %s --replay {path}" % pid,
            "engine": "sim",
            "level_claimed": {"category": "exploration", "text": text, "design_ref": ref},
            "level_note": note, "technique": technique}

CHECKS = [
 chk("C06", "Seeded search over histories of resolver objects: three drivers (resolve / resolve_iter / resolve_all) and three constructors over shared fragment libraries, interleaved op by op with co-tenants, aborts at sampled lines, scribbles, abandoned iterators and library growth. Each level of every driver is compared with a pristine per-item reference, each client with its solo run in a pristine fork, each step's coarse graph with the previous fine graph, and the last level with the flattened string and with the molecule the generator constructed. Evidence, not proof: the quantifier over all groupings is sampled.",
     "Trusted: fork isolation of a warm interpreter; the generator's own molecule model and SMILES/CGsmiles writers (items are cross-checked by an admission self-check); networkx VF2. The composition clause is decided only on generated leaf-decomposition items.",
     "deterministic simulation: seeded op-level scheduler + fault injection (abort/scribble/abandon/grow) + isolation reference + reference by construction", "DESIGN.md 4/C06"),
 chk("C12", "Seeded search over call histories sharing fragment dictionaries within one process, under several PYTHONHASHSEED values in fresh interpreters: numbering/naming invariants on every returned graph, byte-identical canonical dumps across constructors, permuted definition blocks, schedules and co-tenants, library snapshots after every event including after aborts at sampled lines and scribbles on returned graphs, event-log digests identical across hash seeds.",
     "Trusted: canonical dump covers all node/edge attributes reachable from returned graphs; fork isolation; only libraries that were passed in are judged for modification.",
     "deterministic simulation: seeded op-level scheduler + fault injection + library snapshot invariant + cross-interpreter (hash seed) log comparison", "DESIGN.md 4/C12"),
]

m = {
 "version": 1,
 "setup_cmd": "/venv/bin/python /verif/check.py selftest --setup",
 "hooks": {"guard": "CGSMILES_VERIF", "enable": "none needed: every seam is reachable from outside (module attributes cgsmiles.sample.random / .time, cgsmiles.rdkit.AllChem, numpy global RNG, PYTHONHASHSEED, sys.settrace); checks import /repo's working tree directly with PYTHONPATH=/repo PBR_VERSION=0.0.0",
           "baseline_off_cmd": "cd /repo && /venv/bin/python -m pytest -ra -q -p no:cacheprovider --timeout=900 --continue-on-collection-errors",
           "source_commits": [], "add_only": True},
 "engines": [{"name": "sim", "path": "/verif/sim", "serves_properties": [], "kind_free_text": "deterministic simulation with fault injection: seeded scheduler over clients/ops, owned entropy/clock/embedder seams, fork-per-run isolation references, abort injection via sys.settrace, ddmin-minimised replay files"}],
 "checks": CHECKS,
 "notes": "See DESIGN.md. Exit codes: 0 held / 1 VIOLATION / 2 harness error.",
 "not_applicable": [{"property_id": k, "reason": v} for k, v in sorted(NA.items())],
}
json.dump(m, open('/verif/MANIFEST.json','w'), indent=1)
